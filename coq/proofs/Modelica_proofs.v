From Coq Require Import ZArith QArith Qabs List Bool Lqa Lia.
From RT Require Import Xq Expr Modelica Interp_proofs MergeBounds_proofs Xq_proofs.
Import ListNotations.
Open Scope Q_scope.

Definition within (x : Xq) (b : Xq * Xq) : Prop := xle (fst b) x = true /\ xle x (snd b) = true.

Lemma pymax_npmax a b : nn a -> nn b -> pymax a b = npmax a b.
Proof. unfold nn, pymax, npmax. intros -> ->. reflexivity. Qed.
Lemma pymin_npmin a b : nn a -> nn b -> pymin a b = npmin a b.
Proof. unfold nn, pymin, npmin. intros -> ->. reflexivity. Qed.

Lemma attr_nn par e d : nn d -> nn (attr par e d).
Proof. intros H. destruct e; cbn; [reflexivity|exact H]. Qed.

Definition declared (par : list Q) (v : mvar) : Xq * Xq :=
  (attr par (mv_min v) XNInf, attr par (mv_max v) XPInf).

(* the resulting interval is exactly the intersection of the declared and the other interval *)
Lemma bounds_intersection par v lo hi x :
  nn lo -> nn hi ->
  (within x (bounds_of par v (Some (lo, hi))) <-> within x (lo, hi) /\ within x (declared par v)).
Proof.
  intros Hlo Hhi. unfold within, bounds_of, declared. cbn [fst snd].
  assert (Hm : nn (attr par (mv_min v) XNInf)) by (apply attr_nn; reflexivity).
  assert (HM : nn (attr par (mv_max v) XPInf)) by (apply attr_nn; reflexivity).
  rewrite pymax_npmax, pymin_npmin by assumption.
  split.
  - intros (H1 & H2). repeat split.
    + eapply xle_trans; [|exact H1]; apply npmax_ub_l; assumption.
    + eapply xle_trans; [exact H2|]; apply npmin_lb_l; assumption.
    + eapply xle_trans; [|exact H1]; apply npmax_ub_r; assumption.
    + eapply xle_trans; [exact H2|]; apply npmin_lb_r; assumption.
  - intros ((H1 & H2) & (H3 & H4)). split.
    + apply npmax_lub; assumption.
    + apply npmin_glb; assumption.
Qed.

Lemma bounds_nn par v lo hi : nn lo -> nn hi ->
  nn (fst (bounds_of par v (Some (lo, hi)))) /\ nn (snd (bounds_of par v (Some (lo, hi)))).
Proof.
  intros Hlo Hhi. unfold bounds_of. cbn [fst snd].
  assert (Hm : nn (attr par (mv_min v) XNInf)) by (apply attr_nn; reflexivity).
  assert (HM : nn (attr par (mv_max v) XPInf)) by (apply attr_nn; reflexivity).
  rewrite pymax_npmax, pymin_npmin by assumption. split; [apply npmax_nn|apply npmin_nn]; assumption.
Qed.

(* all three sources: declared attributes, bounds of the classes below, bound series of the files *)
Lemma final_bounds_intersection par v lo hi flo fhi x :
  nn lo -> nn hi -> nn flo -> nn fhi ->
  (within x (final_bounds par v (Some (lo, hi)) (Some (flo, fhi))) <->
   within x (lo, hi) /\ within x (declared par v) /\ within x (flo, fhi)).
Proof.
  intros Hlo Hhi Hflo Hfhi.
  destruct (bounds_nn par v lo hi Hlo Hhi) as (Hb1 & Hb2).
  pose proof (bounds_intersection par v lo hi x Hlo Hhi) as HI.
  unfold final_bounds. cbv zeta. unfold within in *. cbn [fst snd] in *.
  rewrite pymax_npmax, pymin_npmin by assumption.
  split.
  - intros (H1 & H2).
    assert (HA : xle (fst (bounds_of par v (Some (lo, hi)))) x = true /\ xle x (snd (bounds_of par v (Some (lo, hi)))) = true).
    { split.
      - eapply xle_trans; [|exact H1]. apply npmax_ub_l; assumption.
      - eapply xle_trans; [exact H2|]. apply npmin_lb_l; assumption. }
    apply HI in HA. destruct HA as (HA1 & HA2). split; [exact HA1|]. split; [exact HA2|]. split.
    + eapply xle_trans; [|exact H1]. apply npmax_ub_r; assumption.
    + eapply xle_trans; [exact H2|]. apply npmin_lb_r; assumption.
  - intros (H1 & H2 & (H3 & H4)).
    assert (HA : xle (fst (bounds_of par v (Some (lo, hi)))) x = true /\ xle x (snd (bounds_of par v (Some (lo, hi)))) = true)
      by (apply HI; split; assumption).
    destruct HA as (HA1 & HA2). split.
    + apply npmax_lub; assumption.
    + apply npmin_glb; assumption.
Qed.

Lemma final_bounds_no_file par v other : final_bounds par v other None = bounds_of par v other.
Proof. reflexivity. Qed.

Lemma bounds_no_other par v :
  bounds_of par v None =
  match mv_type v with
  | TBoolean => (pymax (XFin 0) (attr par (mv_min v) XNInf), pymin (XFin 1) (attr par (mv_max v) XPInf))
  | _ => (pymax XNInf (attr par (mv_min v) XNInf), pymin XPInf (attr par (mv_max v) XPInf))
  end.
Proof. unfold bounds_of. destruct (mv_type v); reflexivity. Qed.

Lemma bounds_only_declared par v x :
  mv_type v <> TBoolean -> (within x (bounds_of par v None) <-> within x (declared par v)).
Proof.
  intros Ht. unfold within, bounds_of, declared.
  assert (Hd : (match mv_type v with TBoolean => (XFin 0, XFin 1) | _ => (XNInf, XPInf) end) = (XNInf, XPInf))
    by (destruct (mv_type v); congruence).
  rewrite Hd. cbn [fst snd].
  destruct (mv_min v), (mv_max v); cbn; tauto.
Qed.

Lemma bounds_boolean_default par v :
  mv_type v = TBoolean -> mv_min v = None -> mv_max v = None ->
  bounds_of par v None = (XFin 0, XFin 1).
Proof. intros Ht Hm HM. unfold bounds_of. rewrite Ht, Hm, HM. reflexivity. Qed.

(* initial conditions *)
Lemma fixed_start_is_initial_condition par v e :
  mv_kind v = KState -> mv_fixed v = true -> mv_start v = Some e ->
  history_final par v None = Some (eval par e).
Proof. intros Hk Hf Hs. unfold history_final, history_of, chain. rewrite Hk, Hf, Hs. reflexivity. Qed.

Lemma history_only_when_fixed_state par v :
  history_of par v <> None <-> mv_kind v = KState /\ mv_fixed v = true.
Proof.
  unfold history_of. destruct (mv_kind v), (mv_fixed v);
    (split; [intros H; split; congruence | intros (H1 & H2); congruence]).
Qed.

Lemma file_history_wins par v f : history_final par v (Some f) = Some f.
Proof. reflexivity. Qed.

(* seeds *)
Lemma seed_rule par v s :
  seed_of par v = Some s <->
  mv_kind v <> KInput /\ mv_fixed v = false /\
  exists e, mv_start v = Some e /\ ~ eval par e == 0 /\ s = eval par e.
Proof.
  unfold seed_of. split.
  - destruct (mv_kind v) eqn:Hk; try discriminate;
      (destruct (mv_fixed v); [discriminate|]);
      (destruct (mv_start v) as [e|]; [|discriminate]);
      (destruct (Qeq_bool (eval par e) 0) eqn:E; [discriminate|]);
      intros H; injection H as <-; (split; [congruence|]); (split; [reflexivity|]);
      exists e; (split; [reflexivity|]); (split; [|reflexivity]);
      intros Hq; apply Qeq_bool_iff in Hq; congruence.
  - intros (Hk & Hf & e & Hs & Hne & ->). rewrite Hf, Hs.
    assert (E : Qeq_bool (eval par e) 0 = false).
    { destruct (Qeq_bool (eval par e) 0) eqn:E; auto. apply Qeq_bool_iff in E. tauto. }
    rewrite E. destruct (mv_kind v); congruence.
Qed.

Lemma seed_history_exclusive par v : seed_of par v = None \/ history_of par v = None.
Proof.
  unfold seed_of, history_of. destruct (mv_kind v), (mv_fixed v); auto.
Qed.

(* nominals *)
Lemma nominal_positive par v : 0 < nominal_of par v.
Proof.
  unfold nominal_of. destruct (mv_nominal v) as [e|]; [|lra].
  cbv zeta. destruct (Qeq_bool (Qabs (eval par e)) 0) eqn:E0; cbn [orb]; [lra|].
  destruct (Qeq_bool (Qabs (eval par e)) 1); [lra|].
  pose proof (Qabs_nonneg (eval par e)) as Hn.
  assert (~ Qabs (eval par e) == 0).
  { intros Hq. apply Qeq_bool_iff in Hq. congruence. }
  lra.
Qed.

Lemma nominal_is_magnitude par v e :
  mv_nominal v = Some e -> ~ Qabs (eval par e) == 0 -> nominal_of par v == Qabs (eval par e).
Proof.
  intros Hn H0. unfold nominal_of. rewrite Hn. cbv zeta.
  destruct (Qeq_bool (Qabs (eval par e)) 0) eqn:E0.
  - apply Qeq_bool_iff in E0. tauto.
  - cbn [orb]. destruct (Qeq_bool (Qabs (eval par e)) 1) eqn:E1.
    + apply Qeq_bool_iff in E1. rewrite E1. reflexivity.
    + reflexivity.
Qed.

Lemma nominal_default par v : mv_nominal v = None -> nominal_of par v = 1.
Proof. intros H. unfold nominal_of. rewrite H. reflexivity. Qed.

(* types and roles *)
Lemma discrete_iff_not_real v : discrete_of v = true <-> mv_type v <> TReal.
Proof. unfold discrete_of. destruct (mv_type v); split; congruence. Qed.

Lemma control_iff v : role_of v = RControl <-> mv_kind v = KInput /\ mv_fixed v = false.
Proof. unfold role_of. destruct (mv_kind v), (mv_fixed v); (split; [intros H; split; congruence | intros (H1 & H2); congruence]). Qed.

Lemma constant_input_iff v : role_of v = RConstantInput <-> mv_kind v = KInput /\ mv_fixed v = true.
Proof. unfold role_of. destruct (mv_kind v), (mv_fixed v); (split; [intros H; split; congruence | intros (H1 & H2); congruence]). Qed.

Lemma exported_iff v : exported v = true <-> mv_output v = true \/ role_of v = RControl.
Proof.
  unfold exported. destruct (mv_output v); cbn [orb].
  - tauto.
  - destruct (role_of v); (split; [intros H; first [right; reflexivity | discriminate] | intros [H|H]; congruence]).
Qed.

(* parameter chain *)
Lemma param_chain model file code :
  param_value model file code =
  match code, file with Some c, _ => c | None, Some f => f | None, None => model end.
Proof. unfold param_value. destruct code, file; reflexivity. Qed.

(* simulation start precedence *)
Lemma sim_fixed start i s : sim_start start true i s =
  (if Qeq_bool start 0 then SrcDefault else SrcModelica, start, true).
Proof. unfold sim_start. cbn. destruct (Qeq_bool start 0); reflexivity. Qed.

Lemma sim_initial_state start i s : sim_start start false (Some i) s =
  if Qeq_bool start 0 then (SrcInitialState, i, true) else (SrcModelica, start, true).
Proof. unfold sim_start. cbn. destruct (Qeq_bool start 0); reflexivity. Qed.

Lemma sim_seed start s : sim_start start false None (Some s) = (SrcSeed, s, false).
Proof. reflexivity. Qed.

Lemma sim_default start : sim_start start false None None =
  (if Qeq_bool start 0 then SrcDefault else SrcModelica, start, false).
Proof. unfold sim_start. cbn. destruct (Qeq_bool start 0); reflexivity. Qed.

(* non-vacuity *)
Definition ex_var : mvar :=
  {| mv_kind := KState; mv_type := TReal; mv_min := Some (EC (-5)); mv_max := Some (EMul (EC 3) (EV 0));
     mv_start := Some (EC (3 # 2)); mv_fixed := true; mv_nominal := Some (EC (-4)); mv_output := false |}.
Example ex_bounds : bounds_of [2] ex_var (Some (XFin (-2), XPInf)) = (XFin (-2), XFin (3 * 2)).
Proof. reflexivity. Qed.
Example ex_hist : history_final [2] ex_var None = Some (3 # 2). Proof. reflexivity. Qed.
Example ex_nominal : nominal_of [2] ex_var == 4. Proof. reflexivity. Qed.
