From Coq Require Import ZArith QArith List Bool Arith Lia Sorting.Sorted.
From RT Require Import GpLoop GpLoopSpec.
Import ListNotations.
Open Scope Z_scope.

(* ---- priorities: sorted, duplicate free, exactly the non-empty goals' int(priority) --------- *)
Lemma insert_in p x l : In x (insert p l) <-> x = p \/ In x l.
Proof.
  induction l as [|y t IH]; cbn.
  - intuition.
  - destruct (p <? y) eqn:E1; cbn; [intuition|].
    destruct (p =? y) eqn:E2; cbn.
    + apply Z.eqb_eq in E2. subst. intuition.
    + rewrite IH. intuition.
Qed.

Lemma insert_sorted p l : StronglySorted Z.lt l -> StronglySorted Z.lt (insert p l).
Proof.
  induction l as [|y t IH]; cbn; intros Hs.
  - constructor; constructor.
  - inversion Hs as [|? ? Hst Hall]; subst.
    destruct (p <? y) eqn:E1.
    + apply Z.ltb_lt in E1. constructor; auto. constructor; auto.
      rewrite Forall_forall in *. intros z Hz. specialize (Hall z Hz). lia.
    + destruct (p =? y) eqn:E2; auto.
      apply Z.ltb_ge in E1. apply Z.eqb_neq in E2.
      constructor; auto. rewrite Forall_forall in *. intros z Hz.
      apply insert_in in Hz. destruct Hz as [->|Hz]; [lia|auto].
Qed.

Lemma prios_sorted goals : StronglySorted Z.lt (prios goals).
Proof.
  unfold prios. induction (map _ _) as [|p t IH]; cbn; [constructor|].
  now apply insert_sorted.
Qed.

Lemma prios_in goals p :
  In p (prios goals) <-> exists g, In g goals /\ g_empty g = false /\ prio_int (g_prio g) = p.
Proof.
  unfold prios.
  assert (H : forall l, In p (fold_right insert [] l) <-> In p l).
  { induction l as [|x t IH]; cbn; [tauto|]. rewrite insert_in, IH. intuition. }
  rewrite H, in_map_iff. split.
  - intros (g & Hp & Hg). apply filter_In in Hg. destruct Hg as (Hg & He).
    exists g. rewrite negb_true_iff in He. auto.
  - intros (g & Hg & He & Hp). exists g. split; auto. apply filter_In. split; auto.
    now rewrite He.
Qed.

(* ---- the loop in closed form ------------------------------------------------------------------ *)
Definition gen_ret (ps : list Z) (k : nat) (succ : bool) : bool :=
  match ps with [] => succ | _ => Nat.eqb k (length ps) end.

Definition gen_exposed (ps : list Z) (k i : nat) (last : option nat) : option nat :=
  match k with
  | O => match ps with
         | [] => last
         | _ => match last with Some j => Some j | None => Some i end
         end
  | S k' => Some (i + k')%nat
  end.

Lemma loop_closed ps oracle : forall i succ last,
  let k := first_fail oracle i (length ps) in
  trace (loop ps oracle i succ last) = spec_trace ps k /\
  ret (loop ps oracle i succ last) = gen_ret ps k succ /\
  exposed (loop ps oracle i succ last) = gen_exposed ps k i last.
Proof.
  induction ps as [|p t IH]; intros i succ last; cbn [loop first_fail length].
  - cbn. destruct last; auto.
  - destruct (oracle i) eqn:E.
    + destruct (IH (S i) true (Some i)) as (H1 & H2 & H3). cbn [trace ret exposed].
      split; [|split].
      * rewrite H1. reflexivity.
      * rewrite H2. unfold gen_ret. destruct t; reflexivity.
      * rewrite H3. unfold gen_exposed.
        destruct (first_fail oracle (S i) (length t)) as [|k'] eqn:Ek.
        -- destruct t; f_equal; lia.
        -- f_equal. lia.
    + cbn. repeat split; try (destruct last; reflexivity).
Qed.

Theorem run_is_spec goals oracle : run goals oracle = spec_outcome goals oracle.
Proof.
  unfold run, spec_outcome.
  destruct (loop_closed (prios goals) oracle 0%nat false None) as (H1 & H2 & H3).
  destruct (loop (prios goals) oracle 0%nat false None) as [tr r e]. cbn in *.
  subst. f_equal.
Qed.

(* ---- consequences spelled out -------------------------------------------------------------- *)
Lemma first_fail_le oracle : forall n i, (first_fail oracle i n <= n)%nat.
Proof. induction n; intros i; cbn; [lia|]. destruct (oracle i); [specialize (IHn (S i))|]; lia. Qed.

Lemma first_fail_all oracle : forall n i,
  first_fail oracle i n = n <-> (forall j, (j < n)%nat -> oracle (i + j)%nat = true).
Proof.
  induction n; intros i; cbn.
  - split; [intros _ j Hj; lia|auto].
  - destruct (oracle i) eqn:E.
    + split.
      * intros H. injection H as H. rewrite IHn in H. intros [|j] Hj.
        -- now rewrite Nat.add_0_r.
        -- replace (i + S j)%nat with (S i + j)%nat by lia. apply H. lia.
      * intros H. f_equal. apply IHn. intros j Hj.
        replace (S i + j)%nat with (i + S j)%nat by lia. apply H. lia.
    + split; [discriminate|]. intros H. specialize (H 0%nat ltac:(lia)).
      rewrite Nat.add_0_r in H. congruence.
Qed.

Lemma first_fail_prefix oracle : forall n i j,
  (j < first_fail oracle i n)%nat -> oracle (i + j)%nat = true.
Proof.
  induction n; intros i j; cbn; [lia|].
  destruct (oracle i) eqn:E; [|lia].
  destruct j; intros Hj; [now rewrite Nat.add_0_r|].
  replace (i + S j)%nat with (S i + j)%nat by lia. apply IHn. lia.
Qed.

Lemma first_fail_fails oracle : forall n i,
  (first_fail oracle i n < n)%nat -> oracle (i + first_fail oracle i n)%nat = false.
Proof.
  induction n; intros i; cbn; [lia|].
  destruct (oracle i) eqn:E.
  - intros H. replace (i + S (first_fail oracle (S i) n))%nat with (S i + first_fail oracle (S i) n)%nat by lia.
    apply IHn. lia.
  - intros _. now rewrite Nat.add_0_r.
Qed.

Definition started (tr : list ev) : list Z :=
  flat_map (fun e => match e with Started p => [p] | _ => [] end) tr.
Definition completed (tr : list ev) : list Z :=
  flat_map (fun e => match e with Completed p => [p] | _ => [] end) tr.

Lemma started_spec ps : forall k, (k <= length ps)%nat ->
  started (spec_trace ps k) = firstn (Nat.min (S k) (length ps)) ps /\
  completed (spec_trace ps k) = firstn k ps.
Proof.
  unfold spec_trace, started, completed.
  induction ps as [|p t IH]; intros k Hk.
  - cbn in Hk. assert (k = 0)%nat as -> by lia. cbn. auto.
  - destruct k as [|k].
    + cbn. auto.
    + cbn [length] in Hk. destruct (IH k ltac:(lia)) as (H1 & H2).
      cbn [firstn flat_map nth_error app length]. cbn [flat_map app] in *.
      split.
      * replace (Nat.min (S (S k)) (S (length t))) with (S (Nat.min (S k) (length t))) by lia.
        cbn [firstn]. f_equal. exact H1.
      * f_equal. exact H2.
Qed.
