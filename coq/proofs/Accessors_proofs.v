From Coq Require Import ZArith QArith List Bool Arith Lia Lqa.
From RT Require Import Xq Interp Expr Transcribe Accessors Interp_proofs Transcribe_proofs.
Import ListNotations.
Open Scope Q_scope.

(* the symbolic interpolator at a knot returns the knot's value, in every mode *)
Lemma interp1d_knot m ts fs i t :
  wfk ts fs -> (i < length ts)%nat -> t == nth i ts 0 -> interp1d m ts fs t == nth i fs 0.
Proof.
  intros W Hi Ht. pose proof W as (Hinc & Hne & Hlen).
  destruct (knot_in_range ts Hinc i Hi) as (H1 & H2).
  pose proof (numeric_eq_symbolic_inside m ts fs None None t W ltac:(lra) ltac:(lra)) as A.
  pose proof (core_val_knot m ts fs None None i t W Hi Ht) as B.
  destruct (core_val m ts fs None None t) as [| |q|]; cbn in A, B; try contradiction. lra.
Qed.

Section Acc.
  Variable P : problem.
  Variable X : list Q.
  Variable m j : nat.
  Let tj := jtimes P j.
  Hypothesis Htj : incr tj.
  Hypothesis Hne : tj <> [].
  Hypothesis Ht0 : hd 0 tj == t0 P.          (* the variable's grid starts at t0 *)

  Lemma slice_length s len : length (slice X s len) = len.
  Proof. unfold slice. now rewrite map_length, seq_length. Qed.

  Lemma slice_nth s len k : (k < len)%nat -> nth k (slice X s len) 0 = xget X (s + k).
  Proof.
    intros H. unfold slice. rewrite (nth_map_in _ (seq 0 len) k 0%nat 0) by (rewrite seq_length; lia).
    now rewrite seq_nth by lia.
  Qed.

  Lemma wfk_raw : wfk tj (slice X (var_start P m j) (vlen P j)).
  Proof. repeat split; auto. rewrite slice_length. reflexivity. Qed.

  Lemma knot_ge_t0 i : (i < length tj)%nat -> t0 P <= nth i tj 0.
  Proof.
    intros Hi. destruct (knot_in_range tj Htj i Hi) as (H1 & _). unfold hdq in H1. lra.
  Qed.

  (* C15: at its own i-th time stamp the value of a variable is its i-th extracted result *)
  Theorem state_at_knot_is_result i t extrapolate :
    (i < vlen P j)%nat -> t == nth i tj 0 ->
    exists v, state_at P X m j t false extrapolate = AVal (XFin v) /\
              v == nth i (results P X m j) 0.
  Proof.
    intros Hi Ht. unfold vlen in Hi. fold (jtimes P j) in Hi. fold tj in Hi.
    pose proof (knot_ge_t0 i Hi) as Hge.
    destruct (knot_in_range tj Htj i Hi) as (H1 & H2). unfold hdq, lastq in *.
    unfold state_at. fold tj.
    assert (Qlt_bool t (t0 P) = false) as -> by (apply Qlt_bool_false; lra).
    assert (Qlt_bool t (hd 0 tj) = false) as -> by (apply Qlt_bool_false; lra).
    assert (Qlt_bool (last tj 0) t = false) as -> by (apply Qlt_bool_false; lra).
    rewrite andb_false_r. cbn [orb].
    eexists. split; [reflexivity|].
    unfold results. rewrite (nth_map_in _ (seq 0 (vlen P j)) i 0%nat 0) by (rewrite seq_length; unfold vlen; fold (jtimes P j); fold tj; lia).
    rewrite seq_nth by (unfold vlen; fold (jtimes P j); fold tj; lia). cbn [Nat.add].
    rewrite (interp1d_knot (jmode P j) tj _ i t wfk_raw Hi Ht).
    rewrite slice_nth by (unfold vlen; fold (jtimes P j); fold tj; lia). reflexivity.
  Qed.

  (* between two of its stamps: linear / previous / next value of the extracted results *)
  Theorem state_at_between i t :
    (S i < vlen P j)%nat -> nth i tj 0 < t -> t < nth (S i) tj 0 ->
    state_at P X m j t false true =
    AVal (XFin (qnth (nom P) j *
                match jmode P j with
                | Linear => xget X (var_start P m j + i) +
                            (xget X (var_start P m j + S i) - xget X (var_start P m j + i)) *
                            ((t - nth i tj 0) / (nth (S i) tj 0 - nth i tj 0))
                | Forward => xget X (var_start P m j + i)
                | Backward => xget X (var_start P m j + S i)
                end)).
  Proof.
    intros Hi H1 H2. unfold vlen in Hi. fold (jtimes P j) in Hi. fold tj in Hi.
    pose proof (knot_ge_t0 i ltac:(lia)) as Hge.
    destruct (knot_in_range tj Htj i ltac:(lia)) as (Ha & _).
    destruct (knot_in_range tj Htj (S i) Hi) as (_ & Hb). unfold hdq, lastq in *.
    unfold state_at. fold tj.
    assert (Qlt_bool t (t0 P) = false) as -> by (apply Qlt_bool_false; lra).
    cbn [negb andb]. unfold interp1d. unfold hdq, lastq.
    assert (Qle_bool t (hd 0 tj) = false) as -> by (apply Qle_bool_false; lra).
    assert (Qle_bool (last tj 0) t = false) as -> by (apply Qle_bool_false; lra).
    pose proof wfk_raw as (_ & _ & Hl).
    destruct (jmode P j).
    - rewrite (lin_segment tj Htj _ i t Hl Hi); [|lra|lra].
      rewrite !slice_nth by (unfold vlen; fold (jtimes P j); fold tj; lia). reflexivity.
    - rewrite (count_le_spec tj Htj i t ltac:(lia)); [|lra|intros _; lra].
      replace (Nat.max (S i - 1) 0) with i by lia.
      rewrite slice_nth by (unfold vlen; fold (jtimes P j); fold tj; lia). reflexivity.
    - rewrite (count_lt_spec tj Htj i t ltac:(lia)); [|lra|intros _; lra].
      replace (Nat.min (S i) (length tj - 1)) with (S i) by lia.
      rewrite slice_nth by (unfold vlen; fold (jtimes P j); fold tj; lia). reflexivity.
  Qed.

  (* outside the horizon with extrapolate=False the accessor raises *)
  Theorem state_at_outside_raises t : last tj 0 < t -> state_at P X m j t false false = ARaise.
  Proof.
    intros H. assert (t0 P <= last tj 0).
    { assert (0 < length tj)%nat by (destruct tj; cbn; [congruence|lia]).
      destruct (knot_in_range tj Htj 0%nat ltac:(lia)) as (H1 & H2). unfold hdq, lastq in *.
      rewrite hdq_nth in Ht0. unfold hdq in *. lra. }
    unfold state_at. fold tj.
    assert (Qlt_bool t (t0 P) = false) as -> by (apply Qlt_bool_false; lra).
    assert (Qlt_bool (last tj 0) t = true) as -> by (apply Qlt_bool_true; lra).
    now rewrite orb_true_r.
  Qed.
End Acc.

(* ---- der_at ------------------------------------------------------------------------------------------ *)
Lemma find_interval_spec ks : incr ks -> forall i t, (S i < length ks)%nat ->
  nth i ks 0 < t -> t <= nth (S i) ks 0 ->
  find_interval ks t = Some (nth i ks 0, nth (S i) ks 0).
Proof.
  induction ks as [|a l IH]; intros Hinc i t Hi H1 H2; [cbn in Hi; lia|].
  destruct l as [|b l']; [cbn in Hi; lia|].
  destruct i as [|i].
  - cbn [nth] in *. cbn [find_interval].
    assert (Qlt_bool a t = true) as -> by (apply Qlt_bool_true; auto).
    assert (Qle_bool t b = true) as -> by (apply Qle_bool_iff; auto). reflexivity.
  - cbn [find_interval].
    assert (b <= nth i (b :: l') 0) as Hb.
    { destruct i; [cbn; lra|].
      pose proof (incr_nth_lt (b :: l') (incr_tail _ _ Hinc) 0 (S i) ltac:(lia) ltac:(cbn in *; lia)) as H.
      change (nth 0 (b :: l') 0) with b in H. lra. }
    change (nth (S i) (a :: b :: l') 0) with (nth i (b :: l') 0) in *.
    change (nth (S (S i)) (a :: b :: l') 0) with (nth (S i) (b :: l') 0) in *.
    assert (Qle_bool t b = false) as -> by (apply Qle_bool_false; lra).
    rewrite andb_false_r. apply IH; auto; [eapply incr_tail; eauto|cbn in *; lia].
Qed.

(* the dedicated initial derivative at t0 *)
Theorem der_at_t0_state P X m j : (j < ns P)%nat ->
  der_at P X m j (t0 P) = AVal (XFin (nth j (init_ders P X m) 0)).
Proof.
  intros Hj. unfold der_at.
  assert (Qeq_bool (t0 P) (t0 P) = true) as -> by (apply Qeq_bool_iff; reflexivity).
  assert ((j <? ns P) = true) as -> by (apply Nat.ltb_lt; lia). cbn [andb].
  now rewrite init_ders_free.
Qed.

(* on and between later knots: the backward difference quotient of state_at over the knot interval *)
Theorem der_at_backward_difference P X m j i t :
  incr (jtimes P j) -> (S i < vlen P j)%nat -> t0 P < t ->
  nth i (jtimes P j) 0 < t -> t <= nth (S i) (jtimes P j) 0 ->
  ~ t == hd 0 (jtimes P j) ->
  der_at P X m j t =
  AVal (XFin ((acc_q (state_at P X m j (nth (S i) (jtimes P j) 0) false true) -
               acc_q (state_at P X m j (nth i (jtimes P j) 0) false true)) /
              (nth (S i) (jtimes P j) 0 - nth i (jtimes P j) 0))).
Proof.
  intros Hinc Hi Ht0 H1 H2 Hh. unfold der_at, der_knots.
  assert (Qeq_bool t (t0 P) = false) as -> by (apply Qeq_bool_false; lra). cbn [andb].
  assert (Qle_bool t (t0 P) = false) as -> by (apply Qle_bool_false; lra).
  assert (Qeq_bool t (hd 0 (jtimes P j)) = false) as -> by (apply Qeq_bool_false; auto).
  rewrite (find_interval_spec (jtimes P j) Hinc i t); auto.
Qed.

(* ---- integral -------------------------------------------------------------------------------------- *)
(* over the whole horizon of the variable the knots are exactly its time stamps with the extracted
   results, so the integral is their trapezoid rule *)
Lemma filter_all {A} (f : A -> bool) l : (forall x, In x l -> f x = true) -> filter f l = l.
Proof.
  induction l as [|a l IH]; intros H; cbn; auto.
  rewrite (H a (or_introl eq_refl)), IH; auto. intros x Hx. apply H. now right.
Qed.

Theorem integral_full_horizon P X m j :
  incr (jtimes P j) -> (2 <= vlen P j)%nat ->
  integral P X m j (hd 0 (jtimes P j)) (last (jtimes P j) 0) =
  trapz (combine (jtimes P j) (results P X m j)).
Proof.
  intros Hinc Hl. unfold integral, knots_in.
  set (tj := jtimes P j) in *. set (res := results P X m j).
  assert (Hlen : length res = length tj).
  { unfold res, results. rewrite map_length, seq_length. reflexivity. }
  assert (Hne : tj <> []) by (unfold vlen in Hl; fold (jtimes P j) in Hl; fold tj in Hl; destruct tj; cbn in *; [lia|discriminate]).
  assert (Hall : filter (fun tv : Q * Q => Qle_bool (hd 0 tj) (fst tv) && Qle_bool (fst tv) (last tj 0)) (combine tj res) = combine tj res).
  { apply filter_all. intros (t, v) Hin. cbn [fst].
    apply in_combine_l in Hin. apply (In_nth _ _ 0) in Hin. destruct Hin as (i & Hi & <-).
    destruct (knot_in_range tj Hinc i Hi) as (H1 & H2). unfold hdq, lastq in *.
    apply andb_true_iff. split; apply Qle_bool_iff; auto. }
  rewrite Hall.
  assert (Hfirst : existsb (fun tv : Q * Q => Qeq_bool (fst tv) (hd 0 tj)) (combine tj res) = true).
  { destruct tj as [|a l]; [congruence|]. destruct res as [|r rs]; [discriminate|].
    cbn. assert (Qeq_bool a a = true) as -> by (apply Qeq_bool_iff; reflexivity). reflexivity. }
  assert (Hlast : existsb (fun tv : Q * Q => Qeq_bool (fst tv) (last tj 0)) (combine tj res) = true).
  { apply existsb_exists. exists (last tj 0, nth (length tj - 1) res 0). split.
    - change (last tj 0) with (lastq tj). rewrite (lastq_nth tj Hne).
      assert (length tj - 1 < length tj)%nat by (destruct tj; cbn in *; [congruence|lia]).
      rewrite <- (combine_nth tj res (length tj - 1) 0 0) by auto. apply nth_In. rewrite combine_length. lia.
    - cbn [fst]. apply Qeq_bool_iff. reflexivity. }
  rewrite Hfirst, Hlast. cbn [app]. now rewrite app_nil_r.
Qed.

(* ---- map_path_expression -------------------------------------------------------------------------- *)
(* row i of an expression mapped over the horizon is the expression on the environment of time
   stamp i -- the environments the path objective and path constraints are transcribed with *)
Theorem map_path_rows P X m e i : (i < nt P)%nat ->
  nth i (map_path P X m e) 0 = path_env_obj (PathObj_of e) P X m i.
Proof.
  intros Hi. unfold map_path.
  rewrite (nth_map_in _ (seq 0 (nt P)) i 0%nat 0) by (rewrite seq_length; lia).
  now rewrite seq_nth by lia.
Qed.
