From Coq Require Import ZArith QArith Qabs List Bool Arith Lia Lqa Sorted.
From RT Require Import PiSeries.
Import ListNotations.
Open Scope Z_scope.

(* ---- arithmetic --------------------------------------------------------------------------------- *)
Lemma rdiv_exact k dt : 0 < dt -> rdiv (k * dt) dt = k.
Proof.
  intros Hdt. unfold rdiv. symmetry. apply Z.div_unique with (r := dt); nia.
Qed.

Lemma rdiv_zero dt : 0 < dt -> rdiv 0 dt = 0.
Proof. intros H. replace 0 with (0 * dt) at 1 by lia. apply rdiv_exact; assumption. Qed.

(* ---- lists --------------------------------------------------------------------------------------- *)
Lemma take_pad_full n l : length l = n -> take_pad n l = l.
Proof.
  intros <-. unfold take_pad. rewrite firstn_all, Nat.sub_diag. cbn. apply app_nil_r.
Qed.

Lemma take_pad_length n l : length (take_pad n l) = n.
Proof.
  unfold take_pad. rewrite app_length, firstn_length, repeat_length. lia.
Qed.

Lemma fold_min_const x l : (forall y, In y l -> y = x) -> fold_left Z.min l x = x.
Proof.
  induction l as [|y l IH]; cbn; intros H; [reflexivity|].
  rewrite (H y (or_introl eq_refl)), Z.min_id. apply IH. intros z Hz. apply H. right. exact Hz.
Qed.

Lemma fold_max_const x l : (forall y, In y l -> y = x) -> fold_left Z.max l x = x.
Proof.
  induction l as [|y l IH]; cbn; intros H; [reflexivity|].
  rewrite (H y (or_introl eq_refl)), Z.max_id. apply IH. intros z Hz. apply H. right. exact Hz.
Qed.

Lemma zmin_list_const d x l : l <> [] -> (forall y, In y l -> y = x) -> zmin_list d l = x.
Proof.
  destruct l as [|y l]; [congruence|]. intros _ H. cbn.
  rewrite (H y (or_introl eq_refl)). apply fold_min_const. intros z Hz. apply H. right. exact Hz.
Qed.

Lemma zmax_list_const d x l : l <> [] -> (forall y, In y l -> y = x) -> zmax_list d l = x.
Proof.
  destruct l as [|y l]; [congruence|]. intros _ H. cbn.
  rewrite (H y (or_introl eq_refl)). apply fold_max_const. intros z Hz. apply H. right. exact Hz.
Qed.

Lemma filter_all {A} (g : A -> bool) l : (forall x, In x l -> g x = true) -> filter g l = l.
Proof.
  induction l as [|x l IH]; intros H; [reflexivity|]. cbn. rewrite (H x (or_introl eq_refl)).
  f_equal. apply IH. intros y Hy. apply H. right. exact Hy.
Qed.

(* ---- well-formed stores -------------------------------------------------------------------------- *)
Definition equidistant_axis (ts : list Z) (dt : Z) : Prop :=
  0 < dt /\ ts = map (fun i => hd 0 ts + Z.of_nat i * dt) (seq 0 (length ts)).

Definition increasing (ts : list Z) : Prop := StronglySorted Z.lt ts.

Record wf (st : store) : Prop := {
  wf_nonempty_axis : st_times st <> [];
  wf_axis : match st_dt st with Some dt => equidistant_axis (st_times st) dt | None => increasing (st_times st) end;
  wf_len : forall e, In e (st_entries st) -> length (e_vals e) = length (st_times st);
  wf_entries : st_entries st <> [];
  wf_members_ens : st_ens st = true ->
                   (forall e, In e (st_entries st) -> (e_m e < st_size st)%nat) /\
                   (exists e, In e (st_entries st) /\ S (e_m e) = st_size st);
  wf_members_single : st_ens st = false -> st_size st = 1%nat /\ forall e, In e (st_entries st) -> e_m e = 0%nat;
  wf_fc_on_axis : In (st_fc st) (st_times st);
  wf_fci : st_fci st = index_of (st_fc st) (st_times st) 0
}.

Section RoundTrip.
Variable st : store.
Hypothesis Hwf : wf st.

Let f := pi_write st.

Lemma filter_keeps_all :
  filter (fun e => negb (length (e_vals e) =? 0)%nat) (st_entries st) = st_entries st.
Proof.
  apply filter_all. intros e He.
  rewrite (wf_len st Hwf e He).
  destruct (st_times st) eqn:E; [exfalso; apply (wf_nonempty_axis st Hwf); exact E|]. reflexivity.
Qed.

Lemma series_of_write : f_series f = map (entry_series st) (st_entries st).
Proof. unfold f, pi_write. cbn. rewrite filter_keeps_all. reflexivity. Qed.

Lemma series_nonempty : map s_start (f_series f) <> [] /\ map s_end (f_series f) <> [].
Proof.
  rewrite series_of_write, !map_map. pose proof (wf_entries st Hwf) as H.
  destruct (st_entries st); [congruence|]. cbn. split; discriminate.
Qed.

Lemma gstart_write : gstart f = first_time st.
Proof.
  unfold gstart. apply zmin_list_const; [apply series_nonempty|].
  intros y Hy. rewrite series_of_write, map_map in Hy. apply in_map_iff in Hy. destruct Hy as (e & <- & _). reflexivity.
Qed.

Lemma gend_write : gend f = last_time st.
Proof.
  unfold gend. apply zmax_list_const; [apply series_nonempty|].
  intros y Hy. rewrite series_of_write, map_map in Hy. apply in_map_iff in Hy. destruct Hy as (e & <- & _). reflexivity.
Qed.

Lemma contains_ensemble_write : contains_ensemble f = st_ens st.
Proof.
  unfold contains_ensemble. rewrite series_of_write. pose proof (wf_entries st Hwf) as Hne.
  destruct (st_ens st) eqn:E.
  - destruct (st_entries st) as [|e es]; [congruence|]. cbn. rewrite E. reflexivity.
  - apply not_true_is_false. intros H. apply existsb_exists in H. destruct H as (s & Hs & Hm).
    apply in_map_iff in Hs. destruct Hs as (e & <- & _). cbn in Hm. rewrite E in Hm. discriminate.
Qed.

Lemma fold_size_bound (l : list series) (acc n : nat) :
  (acc <= n)%nat -> (forall s, In s l -> match s_member s with Some i => (S i <= n)%nat | None => True end) ->
  (fold_left (fun acc s => match s_member s with Some i => Nat.max acc (S i) | None => acc end) l acc <= n)%nat.
Proof.
  revert acc. induction l as [|s l IH]; cbn; intros acc Ha H; [exact Ha|].
  apply IH; [|intros s' Hs'; apply H; right; exact Hs'].
  pose proof (H s (or_introl eq_refl)) as Hs. destruct (s_member s); lia.
Qed.

Lemma fold_size_mono (l : list series) (acc : nat) :
  (acc <= fold_left (fun acc s => match s_member s with Some i => Nat.max acc (S i) | None => acc end) l acc)%nat.
Proof.
  revert acc. induction l as [|s l IH]; cbn; intros acc; [lia|].
  etransitivity; [|apply IH]. destruct (s_member s); lia.
Qed.

Lemma fold_size_reaches (l : list series) (acc : nat) s i :
  In s l -> s_member s = Some i ->
  (S i <= fold_left (fun acc s => match s_member s with Some i => Nat.max acc (S i) | None => acc end) l acc)%nat.
Proof.
  revert acc. induction l as [|s' l IH]; cbn; intros acc Hin Hm; [contradiction|].
  destruct Hin as [->|Hin].
  - rewrite Hm. etransitivity; [|apply fold_size_mono]. lia.
  - apply IH; assumption.
Qed.

Lemma ensemble_size_write : ensemble_size f = st_size st.
Proof.
  unfold ensemble_size. rewrite series_of_write.
  destruct (st_ens st) eqn:E.
  - destruct (wf_members_ens st Hwf E) as (Hlt & e & He & Hsz).
    apply Nat.le_antisymm.
    + apply fold_size_bound.
      * pose proof (Hlt e He). lia.
      * intros s Hs. apply in_map_iff in Hs. destruct Hs as (e' & <- & He'). cbn. rewrite E.
        pose proof (Hlt e' He'). lia.
    + rewrite <- Hsz. apply fold_size_reaches with (s := entry_series st e).
      * apply in_map. exact He.
      * cbn. rewrite E. reflexivity.
  - destruct (wf_members_single st Hwf E) as (-> & _).
    apply Nat.le_antisymm.
    + apply fold_size_bound; [lia|]. intros s Hs. apply in_map_iff in Hs. destruct Hs as (e' & <- & He').
      cbn. rewrite E. exact I.
    + apply fold_size_mono.
Qed.

(* the axis *)
Lemma last_axis dt : equidistant_axis (st_times st) dt ->
  last_time st = first_time st + Z.of_nat (length (st_times st) - 1) * dt.
Proof.
  intros (Hdt & Heq). unfold last_time, first_time.
  pose proof (wf_nonempty_axis st Hwf) as Hne.
  set (ts := st_times st) in *. set (a := hd 0 ts) in *.
  rewrite Heq at 1.
  assert (Hlen : (0 < length ts)%nat) by (destruct ts; [congruence|cbn; lia]).
  replace (length ts) with (S (length ts - 1)) at 1 by lia.
  rewrite seq_S, map_app. cbn. rewrite last_last. reflexivity.
Qed.

Lemma times_eq_axis dt : equidistant_axis (st_times st) dt ->
  times_eq (first_time st) (last_time st) dt = st_times st.
Proof.
  intros Hax. pose proof Hax as (Hdt & Heq). unfold times_eq.
  rewrite (last_axis dt Hax).
  replace (first_time st + Z.of_nat (length (st_times st) - 1) * dt - first_time st)
    with (Z.of_nat (length (st_times st) - 1) * dt) by lia.
  rewrite rdiv_exact by assumption.
  pose proof (wf_nonempty_axis st Hwf) as Hne.
  assert (Hlen : (0 < length (st_times st))%nat) by (destruct (st_times st); [congruence|cbn; lia]).
  replace (Z.to_nat (Z.of_nat (length (st_times st) - 1) + 1)) with (length (st_times st)) by lia.
  symmetry. exact Heq.
Qed.

(* sorted lists and bisect_left *)
Lemma bisect_left_hd x l : increasing (x :: l) -> bisect_left (x :: l) x = 0%nat.
Proof.
  intros H. inversion H as [|? ? Hs Hall]; subst. unfold bisect_left. cbn.
  rewrite Z.ltb_irrefl.
  assert (Hf : filter (fun y => y <? x) l = []).
  { clear Hs H. induction l as [|y l IH]; [reflexivity|]. inversion Hall as [|? ? Hy Hl]; subst. cbn.
    destruct (Z.ltb_spec y x); [lia|]. apply IH. exact Hl. }
  rewrite Hf. reflexivity.
Qed.

Lemma filter_lt_all l x : Forall (fun y => y < x) l -> filter (fun y => y <? x) l = l.
Proof.
  induction 1 as [|y l Hy Hl IH]; [reflexivity|]. cbn. destruct (Z.ltb_spec y x); [|lia]. rewrite IH. reflexivity.
Qed.

Lemma bisect_cons x l v : bisect_left (x :: l) v = ((if (x <? v)%Z then 1 else 0) + bisect_left l v)%nat.
Proof. unfold bisect_left. cbn. destruct (x <? v)%Z; reflexivity. Qed.

Lemma last_in (l : list Z) d : l <> [] -> In (last l d) l.
Proof.
  induction l as [|x l IH]; [congruence|]. intros _. destruct l as [|y l]; [left; reflexivity|].
  right. apply IH. discriminate.
Qed.

Lemma bisect_left_last l : increasing l -> l <> [] -> bisect_left l (last l 0) = (length l - 1)%nat.
Proof.
  induction l as [|x l IH]; [congruence|]. intros Hs _.
  destruct l as [|y l].
  - unfold bisect_left. cbn. rewrite Z.ltb_irrefl. reflexivity.
  - inversion Hs as [|? ? Hs' Hall]; subst.
    assert (Hx : x < last (y :: l) 0).
    { rewrite Forall_forall in Hall. apply Hall. apply last_in. discriminate. }
    assert (IH' : bisect_left (y :: l) (last (y :: l) 0) = (length (y :: l) - 1)%nat)
      by (apply IH; [exact Hs'|discriminate]).
    change (last (x :: y :: l) 0) with (last (y :: l) 0).
    rewrite bisect_cons, IH'.
    destruct (Z.ltb_spec x (last (y :: l) 0)); [|lia]. cbn [length]. lia.
Qed.

Lemma slice_all {A} (l : list A) : slice l 0 (length l) = l.
Proof. unfold slice. cbn. apply firstn_all. Qed.

Lemma global_times_write : global_times f = st_times st.
Proof.
  unfold global_times. change (f_dt f) with (st_dt st).
  pose proof (wf_axis st Hwf) as Hax. pose proof (wf_nonempty_axis st Hwf) as Hne.
  destruct (st_dt st) as [dt|].
  - rewrite gstart_write, gend_write. apply times_eq_axis. exact Hax.
  - (* the first series already holds the whole axis, no later one is longer *)
    assert (Hlt : longest_times f = st_times st).
    { unfold longest_times. rewrite series_of_write.
      pose proof (wf_entries st Hwf) as Hes. pose proof (wf_len st Hwf) as Hlen.
      destruct (st_entries st) as [|e es]; [congruence|]. cbn [map fold_left].
      cbn [entry_series s_events s_times length].
      rewrite (Hlen e (or_introl eq_refl)).
      assert (H0 : (0 <? length (st_times st))%nat = true).
      { apply Nat.ltb_lt. destruct (st_times st); [congruence|cbn; lia]. }
      cbn [length]. rewrite H0.
      assert (Hrest : forall l, (forall e', In e' l -> length (e_vals e') = length (st_times st)) ->
                fold_left (fun acc s => if (length acc <? length (s_events s))%nat then s_times s else acc)
                          (map (entry_series st) l) (st_times st) = st_times st).
      { induction l as [|e' l IH]; intros Hl; [reflexivity|]. cbn [map fold_left entry_series s_events s_times].
        rewrite (Hl e' (or_introl eq_refl)), Nat.ltb_irrefl. apply IH. intros e'' He''. apply Hl. right. exact He''. }
      apply Hrest. intros e' He'. apply Hlen. right. exact He'. }
    rewrite Hlt, gstart_write, gend_write. unfold first_time, last_time.
    destruct (st_times st) as [|x l] eqn:E; [congruence|].
    cbn [hd]. rewrite bisect_left_hd by exact Hax.
    rewrite bisect_left_last by (try exact Hax; discriminate).
    replace (length (x :: l) - 1 + 1 - 0)%nat with (length (x :: l)) by (cbn; lia).
    apply slice_all.
Qed.

Lemma n_values_write e : In e (st_entries st) -> n_values f (entry_series st e) = length (st_times st).
Proof.
  intros He. unfold n_values. change (f_dt f) with (st_dt st).
  pose proof (wf_axis st Hwf) as Hax. pose proof (wf_nonempty_axis st Hwf) as Hne.
  destruct (st_dt st) as [dt|] eqn:Edt.
  - cbn [entry_series s_end s_start]. rewrite (last_axis dt Hax).
    replace (first_time st + Z.of_nat (length (st_times st) - 1) * dt - first_time st)
      with (Z.of_nat (length (st_times st) - 1) * dt) by lia.
    destruct Hax as (Hdt & _). rewrite rdiv_exact by assumption.
    assert (Hlen : (0 < length (st_times st))%nat) by (destruct (st_times st); [congruence|cbn; lia]).
    lia.
  - pose proof global_times_write as Hg. unfold global_times in Hg. change (f_dt f) with (st_dt st) in Hg.
    rewrite Edt in Hg. cbv zeta in Hg.
    (* longest_times f = st_times st was shown inside; re-derive the two positions *)
    assert (Hlt : longest_times f = st_times st).
    { unfold longest_times. rewrite series_of_write.
      pose proof (wf_entries st Hwf) as Hes. pose proof (wf_len st Hwf) as Hlen.
      destruct (st_entries st) as [|e0 es]; [congruence|]. cbn [map fold_left].
      cbn [entry_series s_events s_times length].
      rewrite (Hlen e0 (or_introl eq_refl)).
      assert (H0 : (0 <? length (st_times st))%nat = true).
      { apply Nat.ltb_lt. destruct (st_times st); [congruence|cbn; lia]. }
      cbn [length]. rewrite H0.
      assert (Hrest : forall l, (forall e', In e' l -> length (e_vals e') = length (st_times st)) ->
                fold_left (fun acc s => if (length acc <? length (s_events s))%nat then s_times s else acc)
                          (map (entry_series st) l) (st_times st) = st_times st).
      { induction l as [|e' l IH]; intros Hl; [reflexivity|]. cbn [map fold_left entry_series s_events s_times].
        rewrite (Hl e' (or_introl eq_refl)), Nat.ltb_irrefl. apply IH. intros e'' He''. apply Hl. right. exact He''. }
      apply Hrest. intros e' He'. apply Hlen. right. exact He'. }
    rewrite Hlt. cbn [entry_series s_end s_start]. unfold first_time, last_time.
    destruct (st_times st) as [|x l] eqn:E; [congruence|].
    cbn [hd]. rewrite bisect_left_hd by exact Hax.
    rewrite bisect_left_last by (try exact Hax; discriminate). cbn. lia.
Qed.

Lemma series_values_write e : In e (st_entries st) -> series_values f (entry_series st e) = e_vals e.
Proof.
  intros He. unfold series_values. rewrite gstart_write, gend_write.
  cbn [entry_series s_start s_end s_events]. rewrite !Z.ltb_irrefl. cbn [app].
  rewrite app_nil_r. apply take_pad_full. rewrite n_values_write by exact He. apply (wf_len st Hwf). exact He.
Qed.

Lemma series_entries_write e : In e (st_entries st) -> series_entries f (entry_series st e) = [e].
Proof.
  intros He. unfold series_entries. rewrite series_values_write by exact He.
  cbn [entry_series s_member s_var s_unit]. destruct (st_ens st) eqn:E.
  - destruct e; reflexivity.
  - rewrite contains_ensemble_write, E.
    destruct (wf_members_single st Hwf E) as (_ & H0). pose proof (H0 e He) as Hm.
    destruct e as [m v vals u]. cbn in *. subst m. reflexivity.
Qed.

Lemma entries_write : flat_map (series_entries f) (f_series f) = st_entries st.
Proof.
  rewrite series_of_write.
  assert (H : forall l, (forall e, In e l -> In e (st_entries st)) ->
                         flat_map (series_entries f) (map (entry_series st) l) = l).
  { induction l as [|e l IH]; intros Hl; [reflexivity|]. cbn [map flat_map].
    rewrite series_entries_write by (apply Hl; left; reflexivity).
    cbn. f_equal. apply IH. intros e' He'. apply Hl. right. exact He'. }
  apply H. auto.
Qed.

(* the forecast date *)
Lemma file_forecast_write : file_forecast f = st_fc st.
Proof.
  unfold file_forecast. rewrite series_of_write. pose proof (wf_entries st Hwf) as Hne.
  destruct (st_entries st) as [|e es]; [congruence|]. cbn.
  destruct (Z.eqb_spec (st_fc st) (first_time st)) as [->|]; reflexivity.
Qed.

Lemma floor_on_axis : floor_forecast f (st_fc st) = st_fc st.
Proof.
  unfold floor_forecast. change (f_dt f) with (st_dt st).
  pose proof (wf_axis st Hwf) as Hax. pose proof (wf_fc_on_axis st Hwf) as Hin.
  destruct (st_dt st) as [dt|]; [|reflexivity].
  destruct Hax as (Hdt & Heq). rewrite gstart_write. unfold first_time.
  rewrite Heq in Hin. apply in_map_iff in Hin. destruct Hin as (i & Hi & _).
  cbv zeta. rewrite <- Hi.
  replace (hd 0 (st_times st) + Z.of_nat i * dt - hd 0 (st_times st)) with (Z.of_nat i * dt) by lia.
  replace ((2 * (Z.of_nat i * dt) + dt) / (2 * dt)) with (rdiv (Z.of_nat i * dt) dt) by reflexivity.
  rewrite rdiv_exact by assumption. lia.
Qed.

Theorem roundtrip :
  let st' := pi_read (pi_write st) in
  st_dt st' = st_dt st /\ st_times st' = st_times st /\ st_fc st' = st_fc st /\ st_fci st' = st_fci st /\
  st_ens st' = st_ens st /\ st_size st' = st_size st /\ st_entries st' = st_entries st.
Proof.
  cbv zeta. unfold pi_read. cbn [st_dt st_times st_fc st_fci st_ens st_size st_entries].
  fold f. rewrite file_forecast_write, floor_on_axis, global_times_write, contains_ensemble_write,
    ensemble_size_write, entries_write, (wf_fci st Hwf).
  repeat split; reflexivity.
Qed.

End RoundTrip.

(* ---- padding ------------------------------------------------------------------------------------- *)
Lemma series_values_shape f s :
  series_values f s =
  repeat None (if gstart f <? s_start s then steps_between f (gstart f) (s_start s) else 0%nat) ++
  take_pad (n_values f s) (s_events s) ++
  repeat None (if s_end s <? gend f then steps_between f (s_end s) (gend f) else 0%nat).
Proof.
  unfold series_values. destruct (gstart f <? s_start s), (s_end s <? gend f); reflexivity.
Qed.

(* equidistant file, series aligned with the global range: exactly the missing steps are padded on
   each side and the result covers the global axis *)
Lemma padded_length f s dt a b :
  f_dt f = Some dt -> 0 < dt ->
  s_start s = gstart f + Z.of_nat a * dt ->
  gend f = s_end s + Z.of_nat b * dt ->
  gstart f <= s_start s -> s_start s <= s_end s ->
  forall n, s_end s = s_start s + Z.of_nat n * dt ->
  series_values f s = repeat None a ++ take_pad (S n) (s_events s) ++ repeat None b /\
  length (series_values f s) = length (times_eq (gstart f) (gend f) dt).
Proof.
  intros Hdt Hpos Hs He Hle Hse n Hn.
  assert (Hnv : n_values f s = S n).
  { unfold n_values. rewrite Hdt, Hn. replace (s_start s + Z.of_nat n * dt - s_start s) with (Z.of_nat n * dt) by lia.
    rewrite rdiv_exact by assumption. lia. }
  assert (Hpre : (if gstart f <? s_start s then steps_between f (gstart f) (s_start s) else 0%nat) = a).
  { unfold steps_between. rewrite Hdt, Hs. replace (gstart f + Z.of_nat a * dt - gstart f) with (Z.of_nat a * dt) by lia.
    rewrite rdiv_exact by assumption. destruct (Z.ltb_spec (gstart f) (gstart f + Z.of_nat a * dt)); [lia|]. nia. }
  assert (Hpost : (if s_end s <? gend f then steps_between f (s_end s) (gend f) else 0%nat) = b).
  { unfold steps_between. rewrite Hdt, He. replace (s_end s + Z.of_nat b * dt - s_end s) with (Z.of_nat b * dt) by lia.
    rewrite rdiv_exact by assumption. destruct (Z.ltb_spec (s_end s) (s_end s + Z.of_nat b * dt)); [lia|]. nia. }
  rewrite series_values_shape, Hpre, Hpost, Hnv. split; [reflexivity|].
  rewrite !app_length, !repeat_length, take_pad_length. unfold times_eq. rewrite map_length, seq_length.
  replace (gend f - gstart f) with (Z.of_nat (a + n + b) * dt) by nia.
  rewrite rdiv_exact by assumption. lia.
Qed.

(* ---- resize ---------------------------------------------------------------------------------------- *)
Definition vnth (l : list val) (i : Z) : val :=
  if i <? 0 then None else nth (Z.to_nat i) l None.

Lemma nth_repeat_none n i : nth i (repeat (@None Q) n) None = None.
Proof. revert i; induction n as [|n IH]; intros [|i]; cbn; auto. Qed.

Lemma my_nth_skipn {A} n (l : list A) i d : nth i (skipn n l) d = nth (n + i) l d.
Proof. revert l; induction n as [|n IH]; intros l; [reflexivity|]. destruct l; [destruct i; reflexivity|]. cbn. apply IH. Qed.

Lemma my_nth_firstn {A} n (l : list A) i d : nth i (firstn n l) d = if (i <? n)%nat then nth i l d else d.
Proof.
  revert l i; induction n as [|n IH]; intros l i.
  - cbn. destruct i; reflexivity.
  - destruct l as [|x l]; [cbn [firstn]; destruct (i <? S n)%nat; destruct i; reflexivity|].
    destruct i; [reflexivity|]. cbn [firstn nth]. rewrite IH. reflexivity.
Qed.

Lemma resize_front_nth ns l i : 0 <= i -> vnth (resize_front ns l) i = vnth l (i + ns).
Proof.
  intros Hi. unfold resize_front, vnth.
  destruct (Z.ltb_spec i 0); [lia|].
  destruct (Z.ltb_spec 0 ns).
  - destruct (Z.ltb_spec (i + ns) 0); [lia|].
    rewrite my_nth_skipn. f_equal. lia.
  - destruct (Z.ltb_spec (i + ns) 0).
    + rewrite app_nth1 by (rewrite repeat_length; lia). apply nth_repeat_none.
    + rewrite app_nth2 by (rewrite repeat_length; lia). rewrite repeat_length. f_equal. lia.
Qed.

Lemma resize_back_nth ne l i :
  0 <= i -> vnth (resize_back ne l) i = if i <? Z.of_nat (length l) + ne then vnth l i else None.
Proof.
  intros Hi. unfold resize_back, vnth.
  destruct (Z.ltb_spec i 0); [lia|].
  destruct (Z.ltb_spec 0 ne).
  - destruct (Z.ltb_spec i (Z.of_nat (length l) + ne)).
    + destruct (Nat.lt_ge_cases (Z.to_nat i) (length l)).
      * rewrite app_nth1 by assumption. reflexivity.
      * rewrite app_nth2 by assumption. rewrite nth_repeat_none. symmetry. apply nth_overflow. assumption.
    + apply nth_overflow. rewrite app_length, repeat_length. lia.
  - destruct (Z.ltb_spec i (Z.of_nat (length l) + ne)).
    + rewrite my_nth_firstn. destruct (Nat.ltb_spec (Z.to_nat i) (length l - Z.to_nat (- ne))); [reflexivity|lia].
    + rewrite my_nth_firstn. destruct (Nat.ltb_spec (Z.to_nat i) (length l - Z.to_nat (- ne))); [lia|reflexivity].
Qed.

(* value i of the resized series is value i + ns of the old one while that index survives *)
Theorem resize_values ns ne l i :
  0 <= i ->
  vnth (resize_back ne (resize_front ns l)) i =
  if i <? Z.of_nat (length (resize_front ns l)) + ne then vnth l (i + ns) else None.
Proof.
  intros Hi. rewrite resize_back_nth by assumption.
  destruct (i <? Z.of_nat (length (resize_front ns l)) + ne); [|reflexivity].
  apply resize_front_nth. assumption.
Qed.

Lemma vnth_outside l i : i < 0 \/ Z.of_nat (length l) <= i -> vnth l i = None.
Proof.
  unfold vnth. intros [H|H].
  - destruct (Z.ltb_spec i 0); [reflexivity|lia].
  - destruct (Z.ltb_spec i 0); [reflexivity|]. apply nth_overflow. lia.
Qed.

(* ---- CSV number format ------------------------------------------------------------------------------- *)
Open Scope Q_scope.

Lemma round_half_even_close q : Qabs (inject_Z (round_half_even q) - q) <= 1 # 2.
Proof.
  unfold round_half_even. destruct q as [n d]. cbn [Qnum Qden].
  set (D := Zpos d). assert (HD : (0 < D)%Z) by (unfold D; lia).
  pose proof (Z.div_mod n D ltac:(lia)) as Hdm. pose proof (Z.mod_pos_bound n D HD) as Hb.
  set (fl := (n / D)%Z) in *. set (r := (n mod D)%Z) in *.
  assert (Hr : (n - fl * D = r)%Z) by lia. rewrite Hr.
  apply Qabs_Qle_condition.
  assert (Hq : n # d == inject_Z fl + (r # d)).
  { unfold Qeq, Qplus, inject_Z. cbn. fold D. nia. }
  destruct (Z.ltb_spec (2 * r) D).
  - rewrite Hq. split; unfold Qle, Qminus, Qplus, Qopp, inject_Z; cbn; fold D; nia.
  - destruct (Z.ltb_spec D (2 * r)).
    + rewrite Hq. rewrite inject_Z_plus. split; unfold Qle, Qminus, Qplus, Qopp, inject_Z; cbn; fold D; nia.
    + destruct (Z.even fl).
      * rewrite Hq. split; unfold Qle, Qminus, Qplus, Qopp, inject_Z; cbn; fold D; nia.
      * rewrite Hq. rewrite inject_Z_plus. split; unfold Qle, Qminus, Qplus, Qopp, inject_Z; cbn; fold D; nia.
Qed.

Lemma round_half_even_int z : round_half_even (inject_Z z) = z.
Proof.
  unfold round_half_even, inject_Z. cbn [Qnum Qden]. rewrite Z.div_1_r. replace (2 * (z - z * 1))%Z with 0%Z by lia. reflexivity.
Qed.

Theorem fmt6_precision q : Qabs (fmt6 q - q) <= 1 # 2000000.
Proof.
  unfold fmt6. pose proof (round_half_even_close (q * 1000000)) as H.
  apply Qabs_Qle_condition in H. destruct H as (H1 & H2).
  set (r := inject_Z (round_half_even (q * 1000000))) in *.
  apply Qabs_Qle_condition. unfold Qdiv. change (/ 1000000) with (1 # 1000000). split; lra.
Qed.

Theorem fmt6_exact k : fmt6 (inject_Z k / 1000000) == inject_Z k / 1000000.
Proof.
  unfold fmt6.
  assert (H : inject_Z k / 1000000 * 1000000 == inject_Z k) by (field).
  assert (Hr : round_half_even (inject_Z k / 1000000 * 1000000) = k).
  { unfold round_half_even. (* evaluate on the concrete representation *)
    unfold Qdiv, Qmult, Qinv, inject_Z. cbn [Qnum Qden].
    replace (Z.pos (1 * 1000000 * 1)) with 1000000%Z by reflexivity.
    replace (k * 1 * 1000000)%Z with (k * 1000000)%Z by lia.
    rewrite Z.div_mul by lia. replace (2 * (k * 1000000 - k * 1000000))%Z with 0%Z by lia. reflexivity. }
  rewrite Hr. reflexivity.
Qed.

(* ---- parameters --------------------------------------------------------------------------------------- *)
Definition same_type (a b : pval) : bool :=
  match a, b with PBool _, PBool _ | PInt _, PInt _ | PDbl _, PDbl _ => true | _, _ => false end.

Theorem param_set_same_type old new : same_type old new = true -> param_set old new = POk new.
Proof. destruct old, new; cbn; congruence. Qed.

Theorem param_set_keeps_type old new v : param_set old new = POk v ->
  match old, v with PBool _, PBool _ | PInt _, PInt _ | PDbl _, PDbl _ => True | _, _ => False end.
Proof. destruct old, new; cbn; intros H; inversion H; exact I. Qed.

(* ---- non-vacuity --------------------------------------------------------------------------------------- *)
Open Scope Z_scope.
Definition ex_store : store :=
  {| st_dt := Some 3600; st_times := [0; 3600; 7200]; st_fc := 3600; st_fci := 1; st_ens := true; st_size := 2%nat;
     st_entries := [ {| e_m := 0%nat; e_v := 0%nat; e_vals := [Some (1 # 2)%Q; None; Some 3%Q]; e_unit := 1%nat |};
                     {| e_m := 1%nat; e_v := 0%nat; e_vals := [None; Some 2%Q; Some (-1)%Q]; e_unit := 1%nat |} ] |}.

Example ex_store_wf : wf ex_store.
Proof.
  constructor; cbn.
  - discriminate.
  - split; [lia|reflexivity].
  - intros e [<-|[<-|[]]]; reflexivity.
  - discriminate.
  - intros _. split.
    + intros e [<-|[<-|[]]]; cbn; lia.
    + eexists. split; [right; left; reflexivity|reflexivity].
  - discriminate.
  - right. left. reflexivity.
  - reflexivity.
Qed.

Definition ex_store_noneq : store :=
  {| st_dt := None; st_times := [0; 600; 7200]; st_fc := 0; st_fci := 0; st_ens := false; st_size := 1%nat;
     st_entries := [ {| e_m := 0%nat; e_v := 0%nat; e_vals := [Some (1 # 2)%Q; None; Some 3%Q]; e_unit := 1%nat |} ] |}.

Example ex_store_noneq_wf : wf ex_store_noneq.
Proof.
  constructor; cbn.
  - discriminate.
  - repeat constructor; lia.
  - intros e [<-|[]]; reflexivity.
  - discriminate.
  - discriminate.
  - intros _. split; [reflexivity|]. intros e [<-|[]]. reflexivity.
  - left. reflexivity.
  - reflexivity.
Qed.
