(* C16 / C07: the delayed-feedback rows of member m are built from member m's own data *)
From Coq Require Import ZArith QArith List Bool Arith.
From RT Require Import Xq Interp Expr Transcribe Transcribe_proofs Delay.
Import ListNotations.
Open Scope Q_scope.

Theorem delay_rows_isolated P P' m X d :
  same_shape P P' -> same_member_data m P P' ->
  delay_rows P X m d = delay_rows P' X m d.
Proof.
  intros (H1 & H2 & H3 & H4 & H5 & H6 & H7 & H8 & H9 & H10 & H11 & H12 & H13) (D1 & D2 & D3 & D4).
  destruct P, P'. cbn in *. subst.
  unfold delay_rows, history_complete, delay_history, delay_nominal, delay_at, hist_times, hist_value,
    vars_at, fd_at, cin_at, par_of, init_ders, idr_nominal, hist_of, t0, cval, var_start, idr_index, base,
    member_size, ctl_size, sa_size, vlen, nsa, nv, nt. cbn.
  rewrite D1, D2, D3, D4. reflexivity.
Qed.
