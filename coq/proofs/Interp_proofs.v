From Coq Require Import ZArith QArith List Bool Lqa Lia.
From RT Require Import Xq Interp.
Import ListNotations.
Open Scope Q_scope.

(* ---- boolean comparisons ---------------------------------------------------------------------- *)
Lemma Qlt_bool_iff a b : Qlt_bool a b = true <-> a < b.
Proof.
  unfold Qlt_bool. rewrite negb_true_iff. split.
  - intros H. apply Qnot_le_lt. intros Hle. apply Qle_bool_iff in Hle. congruence.
  - intros H. destruct (Qle_bool b a) eqn:E; auto. apply Qle_bool_iff in E. lra.
Qed.
Lemma Qlt_bool_false a b : Qlt_bool a b = false <-> b <= a.
Proof. unfold Qlt_bool. rewrite negb_false_iff. apply Qle_bool_iff. Qed.
Lemma Qle_bool_false a b : Qle_bool a b = false <-> b < a.
Proof.
  split.
  - intros H. apply Qnot_le_lt. intros Hle. apply Qle_bool_iff in Hle. congruence.
  - intros H. destruct (Qle_bool a b) eqn:E; auto. apply Qle_bool_iff in E. lra.
Qed.
Lemma Qeq_bool_false a b : Qeq_bool a b = false <-> ~ a == b.
Proof.
  split.
  - intros H E. apply Qeq_bool_iff in E. congruence.
  - intros H. destruct (Qeq_bool a b) eqn:E; auto. apply Qeq_bool_iff in E. contradiction.
Qed.

(* ---- strictly increasing knot vectors ------------------------------------------------------- *)
Fixpoint incr (l : list Q) : Prop :=
  match l with
  | a :: ((b :: _) as t) => a < b /\ incr t
  | _ => True
  end.

Lemma incr_tail a t : incr (a :: t) -> incr t.
Proof. destruct t; cbn; tauto. Qed.

Lemma incr_all a t : incr (a :: t) -> Forall (fun x => a < x) t.
Proof.
  revert a. induction t as [|b t IH]; intros a H; constructor.
  - cbn in H. tauto.
  - destruct H as (Hab & Ht). specialize (IH b Ht).
    rewrite Forall_forall in *. intros x Hx. specialize (IH x Hx). lra.
Qed.

Lemma incr_nth_lt ts : incr ts -> forall i j, (i < j)%nat -> (j < length ts)%nat ->
  nth i ts 0 < nth j ts 0.
Proof.
  induction ts as [|a t IH]; intros Hi i j Hij Hj; [cbn in Hj; lia|].
  destruct j as [|j]; [lia|]. cbn [length] in Hj.
  destruct i as [|i].
  - cbn [nth]. pose proof (incr_all a t Hi) as Ha. rewrite Forall_forall in Ha.
    apply Ha. apply nth_In. lia.
  - cbn [nth]. apply IH; [eapply incr_tail; eauto|lia|lia].
Qed.

(* ---- searchsorted counts -------------------------------------------------------------------- *)
Lemma count_le_zero l t : Forall (fun x => t < x) l -> count_le l t = 0%nat.
Proof.
  unfold count_le. induction l as [|a l IH]; intros H; auto.
  inversion H; subst. cbn. assert (Qle_bool a t = false) as -> by (apply Qle_bool_false; auto).
  auto.
Qed.

Lemma count_lt_zero l t : Forall (fun x => t <= x) l -> count_lt l t = 0%nat.
Proof.
  unfold count_lt. induction l as [|a l IH]; intros H; auto.
  inversion H; subst. cbn. assert (Qlt_bool a t = false) as -> by (apply Qlt_bool_false; auto).
  auto.
Qed.

Lemma Forall_lt_from_hd t b l : incr (b :: l) -> t < b -> Forall (fun x => t < x) (b :: l).
Proof.
  intros Hi Ht. constructor; auto. pose proof (incr_all b l Hi) as H.
  rewrite Forall_forall in *. intros x Hx. specialize (H x Hx). lra.
Qed.

Lemma count_le_spec ts : incr ts -> forall i t, (i < length ts)%nat ->
  nth i ts 0 <= t -> ((S i < length ts)%nat -> t < nth (S i) ts 0) ->
  count_le ts t = S i.
Proof.
  induction ts as [|a l IH]; intros Hi i t Hlen Hle Hlt; [cbn in Hlen; lia|].
  unfold count_le in *. cbn [filter].
  destruct i as [|i].
  - cbn [nth] in Hle. assert (Qle_bool a t = true) as -> by (apply Qle_bool_iff; auto).
    cbn [length]. f_equal.
    destruct l as [|b l']; auto.
    apply (count_le_zero (b :: l') t). apply Forall_lt_from_hd; [eapply incr_tail; eauto|].
    apply Hlt. cbn. lia.
  - cbn [nth length] in *.
    assert (a < nth i l 0) as Ha.
    { pose proof (incr_all a l Hi) as H. rewrite Forall_forall in H. apply H. apply nth_In. lia. }
    assert (Qle_bool a t = true) as -> by (apply Qle_bool_iff; lra).
    cbn [length]. f_equal. apply IH; [eapply incr_tail; eauto|lia|auto|].
    intros H. apply Hlt. lia.
Qed.

Lemma Forall_le_from_hd t b l : incr (b :: l) -> t <= b -> Forall (fun x => t <= x) (b :: l).
Proof.
  intros Hi Ht. constructor; auto. pose proof (incr_all b l Hi) as H.
  rewrite Forall_forall in *. intros x Hx. specialize (H x Hx). lra.
Qed.

(* number of knots strictly below t, for ts_i < t <= ts_{i+1} *)
Lemma count_lt_spec ts : incr ts -> forall i t, (i < length ts)%nat ->
  nth i ts 0 < t -> ((S i < length ts)%nat -> t <= nth (S i) ts 0) ->
  count_lt ts t = S i.
Proof.
  induction ts as [|a l IH]; intros Hi i t Hlen Hle Hlt; [cbn in Hlen; lia|].
  unfold count_lt in *. cbn [filter].
  destruct i as [|i].
  - cbn [nth] in Hle. assert (Qlt_bool a t = true) as -> by (apply Qlt_bool_iff; auto).
    cbn [length]. f_equal.
    destruct l as [|b l']; auto.
    apply (count_lt_zero (b :: l') t). apply Forall_le_from_hd; [eapply incr_tail; eauto|].
    apply Hlt. cbn. lia.
  - cbn [nth length] in *.
    assert (a < nth i l 0) as Ha.
    { pose proof (incr_all a l Hi) as H. rewrite Forall_forall in H. apply H. apply nth_In. lia. }
    assert (Qlt_bool a t = true) as -> by (apply Qlt_bool_iff; lra).
    cbn [length]. f_equal. apply IH; [eapply incr_tail; eauto|lia|auto|].
    intros H. apply Hlt. lia.
Qed.

(* at a knot: exactly i knots are strictly below ts_i *)
Lemma count_lt_knot ts : incr ts -> forall i t, (i < length ts)%nat -> t == nth i ts 0 ->
  count_lt ts t = i.
Proof.
  intros Hi i t Hlen Ht. destruct i as [|i].
  - apply count_lt_zero. destruct ts as [|a l]; [constructor|].
    apply Forall_le_from_hd; auto. cbn in Ht. lra.
  - apply count_lt_spec; auto; try lia.
    + pose proof (incr_nth_lt ts Hi i (S i) ltac:(lia) Hlen). lra.
    + intros _. lra.
Qed.

(* ---- numpy.interp inside the range ---------------------------------------------------------- *)
Lemma lin_cons2 a b l f0 f1 fs t :
  lin (a :: b :: l) (f0 :: f1 :: fs) t =
  if Qlt_bool t b then f0 + (f1 - f0) * ((t - a) / (b - a)) else lin (b :: l) (f1 :: fs) t.
Proof. reflexivity. Qed.

Lemma lin_segment ts : incr ts -> forall fs i t, length fs = length ts -> (S i < length ts)%nat ->
  nth i ts 0 <= t -> t < nth (S i) ts 0 ->
  lin ts fs t = nth i fs 0 + (nth (S i) fs 0 - nth i fs 0) * ((t - nth i ts 0) / (nth (S i) ts 0 - nth i ts 0)).
Proof.
  induction ts as [|a l IH]; intros Hi fs i t Hlen Hi2 Hle Hlt; [cbn in Hi2; lia|].
  destruct l as [|b l']; [cbn in Hi2; lia|].
  destruct fs as [|f0 fs']; [discriminate|]. destruct fs' as [|f1 fs'']; [discriminate|].
  destruct i as [|i].
  - cbn [nth] in *. rewrite lin_cons2. assert (Qlt_bool t b = true) as -> by (apply Qlt_bool_iff; auto).
    reflexivity.
  - rewrite lin_cons2.
    assert (b <= nth i (b :: l') 0) as Hb.
    { destruct i; [cbn; lra|].
      pose proof (incr_nth_lt (b :: l') (incr_tail _ _ Hi) 0 (S i) ltac:(lia) ltac:(cbn in *; lia)) as H.
      change (nth 0 (b :: l') 0) with b in H. lra. }
    change (nth (S i) (a :: b :: l') 0) with (nth i (b :: l') 0) in *.
    change (nth (S (S i)) (a :: b :: l') 0) with (nth (S i) (b :: l') 0) in *.
    change (nth (S i) (f0 :: f1 :: fs'') 0) with (nth i (f1 :: fs'') 0).
    change (nth (S (S i)) (f0 :: f1 :: fs'') 0) with (nth (S i) (f1 :: fs'') 0).
    assert (Qlt_bool t b = false) as -> by (apply Qlt_bool_false; lra).
    apply IH; auto; try (eapply incr_tail; eauto); cbn in *; lia.
Qed.

Lemma lin_last ts : incr ts -> forall fs t, length fs = length ts -> ts <> [] ->
  lastq ts <= t -> lin ts fs t == lastq fs.
Proof.
  induction ts as [|a l IH]; intros Hi fs t Hlen Hne Hle; [congruence|].
  destruct fs as [|f0 fs']; [discriminate|].
  destruct l as [|b l'].
  - destruct fs'; [|discriminate]. cbn. reflexivity.
  - destruct fs' as [|f1 fs'']; [discriminate|].
    rewrite lin_cons2.
    assert (b <= lastq (b :: l')) as Hb.
    { clear -Hi. apply incr_tail in Hi. revert b Hi. induction l' as [|c l IH]; intros b Hi.
      - cbn. lra.
      - assert (c <= lastq (c :: l)) by (apply IH; eapply incr_tail; eauto).
        cbn in Hi. unfold lastq in *. cbn [last] in *. destruct Hi. lra. }
    unfold lastq in *. cbn [last] in Hle, Hb |- *.
    assert (Qlt_bool t b = false) as -> by (apply Qlt_bool_false; lra).
    apply (IH (incr_tail _ _ Hi) (f1 :: fs'') t); auto; try discriminate; cbn in *; lia.
Qed.

Lemma last_cons2 (a b : Q) l d : last (a :: b :: l) d = last (b :: l) d.
Proof. reflexivity. Qed.

Lemma lastq_nth (l : list Q) : l <> [] -> lastq l = nth (length l - 1) l 0.
Proof.
  unfold lastq. induction l as [|a l IH]; [congruence|]. intros _.
  destruct l as [|b l']; [reflexivity|].
  rewrite last_cons2, IH by discriminate.
  change (length (a :: b :: l')) with (S (S (length l'))).
  change (length (b :: l')) with (S (length l')).
  replace (S (S (length l')) - 1)%nat with (S (length l')) by lia.
  replace (S (length l') - 1)%nat with (length l') by lia. reflexivity.
Qed.

(* value of numpy.interp at knot i *)
Lemma lin_knot ts : incr ts -> forall fs i t, length fs = length ts -> (i < length ts)%nat ->
  t == nth i ts 0 -> lin ts fs t == nth i fs 0.
Proof.
  intros Hi fs i t Hlen Hlt Ht.
  destruct (Nat.eq_dec (S i) (length ts)) as [Hlast|Hnl].
  - assert (ts <> []) as Hne by (destruct ts; cbn in *; [lia|discriminate]).
    assert (fs <> []) as Hne' by (destruct fs; cbn in *; [lia|discriminate]).
    rewrite (lin_last ts Hi fs t Hlen Hne).
    + rewrite lastq_nth by auto. rewrite Hlen. replace (length ts - 1)%nat with i by lia. reflexivity.
    + rewrite lastq_nth by auto. replace (length ts - 1)%nat with i by lia. lra.
  - assert (S i < length ts)%nat as Hs by lia.
    pose proof (incr_nth_lt ts Hi i (S i) ltac:(lia) Hs) as Hinc.
    rewrite (lin_segment ts Hi fs i t Hlen Hs); [|lra|lra].
    assert (t - nth i ts 0 == 0) as Hz by lra.
    unfold Qdiv. rewrite Hz. ring.
Qed.

(* ---- the interpolate() API -------------------------------------------------------------------- *)
Definition wfk (ts fs : list Q) : Prop := incr ts /\ ts <> [] /\ length fs = length ts.

Lemma hdq_nth (l : list Q) : hdq l = nth 0 l 0.
Proof. destruct l; reflexivity. Qed.

Lemma xsame_refl x : xsame x x.
Proof. destruct x; cbn; auto. reflexivity. Qed.

Lemma knot_in_range ts : incr ts -> forall i, (i < length ts)%nat ->
  hdq ts <= nth i ts 0 /\ nth i ts 0 <= lastq ts.
Proof.
  intros Hi i Hlt. assert (ts <> []) as Hne by (destruct ts; cbn in *; [lia|discriminate]).
  rewrite hdq_nth, lastq_nth by auto. split.
  - destruct i; [lra|]. pose proof (incr_nth_lt ts Hi 0 (S i) ltac:(lia) Hlt). lra.
  - destruct (Nat.eq_dec i (length ts - 1)) as [->|Hn]; [lra|].
    pose proof (incr_nth_lt ts Hi i (length ts - 1) ltac:(lia) ltac:(lia)). lra.
Qed.

Lemma core_val_inside m ts fs fl fr t :
  hdq ts <= t -> t <= lastq ts ->
  core_val m ts fs fl fr t =
  match m with
  | Linear => XFin (lin ts fs t)
  | Forward => XFin (nth (Nat.max (count_le ts t - 1) 0) fs 0)
  | Backward => XFin (nth (Nat.min (count_lt ts t) (length ts - 1)) fs 0)
  end.
Proof.
  intros H1 H2. unfold core_val.
  assert (Qlt_bool t (hdq ts) = false) as -> by (apply Qlt_bool_false; auto).
  assert (Qlt_bool (lastq ts) t = false) as -> by (apply Qlt_bool_false; auto).
  reflexivity.
Qed.

Lemma out_of_range_inside ts fl fr t :
  hdq ts <= t -> t <= lastq ts -> out_of_range ts fl fr t = false.
Proof.
  intros H1 H2. unfold out_of_range.
  assert (Qlt_bool t (hdq ts) = false) as -> by (apply Qlt_bool_false; auto).
  assert (Qlt_bool (lastq ts) t = false) as -> by (apply Qlt_bool_false; auto).
  now rewrite !andb_false_r.
Qed.

(* the general path at knot i *)
Lemma core_val_knot m ts fs fl fr i t :
  wfk ts fs -> (i < length ts)%nat -> t == nth i ts 0 ->
  xsame (core_val m ts fs fl fr t) (XFin (nth i fs 0)).
Proof.
  intros (Hi & Hne & Hlen) Hlt Ht.
  destruct (knot_in_range ts Hi i Hlt) as (H1 & H2).
  rewrite core_val_inside by lra.
  destruct m; cbn [xsame].
  - apply lin_knot; auto.
  - rewrite (count_le_spec ts Hi i t Hlt); [|lra|].
    + replace (Nat.max (S i - 1) 0) with i by lia. reflexivity.
    + intros Hs. pose proof (incr_nth_lt ts Hi i (S i) ltac:(lia) Hs). lra.
  - rewrite (count_lt_knot ts Hi i t Hlt Ht).
    replace (Nat.min i (length ts - 1)) with i by lia. reflexivity.
Qed.

Theorem interp_scalar_knot m ts fs fl fr i t :
  wfk ts fs -> (i < length ts)%nat -> t == nth i ts 0 ->
  exists x, interp_scalar m ts fs fl fr t = Val x /\ xsame x (XFin (nth i fs 0)).
Proof.
  intros W Hlt Ht. pose proof W as (Hi & Hne & Hlen). unfold interp_scalar.
  destruct (Qeq_bool (hdq ts) t) eqn:E.
  - apply Qeq_bool_iff in E. exists (XFin (hdq fs)). split; auto.
    assert (i = 0)%nat as ->.
    { destruct i; auto. pose proof (incr_nth_lt ts Hi 0 (S i) ltac:(lia) Hlt) as H.
      rewrite hdq_nth in E. lra. }
    rewrite hdq_nth. apply xsame_refl.
  - unfold core1. destruct (knot_in_range ts Hi i Hlt) as (H1 & H2).
    rewrite out_of_range_inside by lra.
    eexists. split; [reflexivity|]. now apply core_val_knot.
Qed.

Theorem interp_scalar_between m ts fs fl fr i t :
  wfk ts fs -> (S i < length ts)%nat -> nth i ts 0 < t -> t < nth (S i) ts 0 ->
  interp_scalar m ts fs fl fr t =
  Val (XFin match m with
            | Linear => nth i fs 0 + (nth (S i) fs 0 - nth i fs 0) *
                                     ((t - nth i ts 0) / (nth (S i) ts 0 - nth i ts 0))
            | Forward => nth i fs 0
            | Backward => nth (S i) fs 0
            end).
Proof.
  intros (Hi & Hne & Hlen) Hs H1 H2.
  destruct (knot_in_range ts Hi i ltac:(lia)) as (Ha & _).
  destruct (knot_in_range ts Hi (S i) Hs) as (_ & Hb).
  unfold interp_scalar.
  assert (Qeq_bool (hdq ts) t = false) as -> by (apply Qeq_bool_false; lra).
  unfold core1. rewrite out_of_range_inside by lra. rewrite core_val_inside by lra.
  destruct m.
  - rewrite (lin_segment ts Hi fs i t Hlen Hs); [reflexivity|lra|lra].
  - rewrite (count_le_spec ts Hi i t ltac:(lia)); [|lra|intros _; lra].
    replace (Nat.max (S i - 1) 0) with i by lia. reflexivity.
  - rewrite (count_lt_spec ts Hi i t ltac:(lia)); [|lra|intros _; lra].
    replace (Nat.min (S i) (length ts - 1)) with (S i) by lia. reflexivity.
Qed.

Theorem interp_scalar_left m ts fs fl fr t :
  hdq ts <= lastq ts -> t < hdq ts ->
  interp_scalar m ts fs fl fr t = match fl with None => Raise | Some x => Val x end.
Proof.
  intros H0 H. unfold interp_scalar.
  assert (Qeq_bool (hdq ts) t = false) as -> by (apply Qeq_bool_false; lra).
  unfold core1, out_of_range, core_val.
  assert (Qlt_bool t (hdq ts) = true) as -> by (apply Qlt_bool_iff; auto).
  assert (Qlt_bool (lastq ts) t = false) as -> by (apply Qlt_bool_false; lra).
  rewrite andb_false_r. destruct fl; cbn; auto.
Qed.

Theorem interp_scalar_right m ts fs fl fr t :
  hdq ts <= lastq ts -> lastq ts < t ->
  interp_scalar m ts fs fl fr t = match fr with None => Raise | Some x => Val x end.
Proof.
  intros H0 H. unfold interp_scalar.
  assert (Qeq_bool (hdq ts) t = false) as -> by (apply Qeq_bool_false; lra).
  unfold core1, out_of_range, core_val.
  assert (Qlt_bool t (hdq ts) = false) as -> by (apply Qlt_bool_false; lra).
  assert (Qlt_bool (lastq ts) t = true) as -> by (apply Qlt_bool_iff; auto).
  rewrite andb_false_r. cbn [orb]. destruct fr; cbn; auto.
Qed.

(* the scalar early exit returns what the general path computes *)
Theorem early_exit_scalar_sound m ts fs fl fr t :
  wfk ts fs -> hdq ts == t ->
  exists x, core1 m ts fs fl fr t = Val x /\ xsame x (XFin (hdq fs)).
Proof.
  intros W E. pose proof W as (Hi & Hne & Hlen).
  assert (0 < length ts)%nat as H0 by (destruct ts; cbn; [congruence|lia]).
  destruct (knot_in_range ts Hi 0%nat H0) as (H1 & H2). rewrite <- hdq_nth in *.
  unfold core1. rewrite out_of_range_inside by lra.
  eexists. split; [reflexivity|]. rewrite (hdq_nth fs).
  apply core_val_knot; auto. rewrite <- hdq_nth. lra.
Qed.

(* ---- arrays ------------------------------------------------------------------------------------ *)
Lemma list_eqb_spec a : forall b, list_eqb a b = true ->
  length a = length b /\ forall i, (i < length a)%nat -> nth i a 0 == nth i b 0.
Proof.
  induction a as [|x a IH]; intros [|y b] H; cbn in H; try discriminate.
  - split; auto. intros i Hi. cbn in Hi. lia.
  - apply andb_true_iff in H. destruct H as (Hxy & Hab). apply Qeq_bool_iff in Hxy.
    destruct (IH b Hab) as (Hl & Hn). split; [cbn; lia|].
    intros [|i] Hi; cbn; auto. apply Hn. cbn in Hi. lia.
Qed.

Lemma Forall2_nth {A B} (R : A -> B -> Prop) (da : A) (db : B) : forall l1 l2,
  length l1 = length l2 -> (forall i, (i < length l1)%nat -> R (nth i l1 da) (nth i l2 db)) ->
  Forall2 R l1 l2.
Proof.
  induction l1 as [|a l1 IH]; intros [|b l2] Hl Hn; cbn in Hl; try discriminate; constructor.
  - apply (Hn 0%nat). cbn. lia.
  - apply IH; [lia|]. intros i Hi. apply (Hn (S i)). cbn. lia.
Qed.

Theorem early_exit_array_sound m ts fs fl fr tq :
  wfk ts fs -> list_eqb tq ts = true ->
  exists l, core_array m ts fs fl fr tq = Val l /\ Forall2 xsame l (map XFin fs).
Proof.
  intros W E. pose proof W as (Hi & Hne & Hlen).
  destruct (list_eqb_spec tq ts E) as (Hl & Hn).
  unfold core_array.
  assert (existsb (out_of_range ts fl fr) tq = false) as ->.
  { destruct (existsb _ tq) eqn:Ex; auto. apply existsb_exists in Ex.
    destruct Ex as (t & Hin & Ho). apply (In_nth _ _ 0) in Hin. destruct Hin as (i & Hlt & <-).
    destruct (knot_in_range ts Hi i ltac:(lia)) as (H1 & H2). specialize (Hn i Hlt).
    rewrite out_of_range_inside in Ho by lra. discriminate. }
  eexists. split; [reflexivity|].
  apply (Forall2_nth xsame (core_val m ts fs fl fr 0) (XFin 0)).
  - rewrite !map_length. lia.
  - intros i Hlt. rewrite map_length in Hlt.
    rewrite (map_nth (core_val m ts fs fl fr) tq 0 i).
    rewrite (map_nth XFin fs 0 i).
    apply core_val_knot; auto; try lia.
Qed.

(* interp_array off the early exit: every entry is the scalar general path *)
Theorem interp_array_pointwise m ts fs fl fr tq l :
  list_eqb tq ts = false -> interp_array m ts fs fl fr tq = Val l ->
  l = map (core_val m ts fs fl fr) tq /\ forall t, In t tq -> out_of_range ts fl fr t = false.
Proof.
  intros E H. unfold interp_array in H. rewrite E in H. unfold core_array in H.
  destruct (existsb _ tq) eqn:Ex; [discriminate|]. injection H as <-. split; auto.
  intros t Hin. destruct (out_of_range ts fl fr t) eqn:Eo; auto.
  assert (existsb (out_of_range ts fl fr) tq = true) by (apply existsb_exists; eauto). congruence.
Qed.

(* 2-D values: column by column *)
Lemma all_vals_Forall2 {A} : forall (l : list (res A)) r, all_vals l = Val r -> Forall2 (fun x y => x = Val y) l r.
Proof.
  induction l as [|[a|] l IH]; intros r H; cbn in H.
  - injection H as <-. constructor.
  - destruct (all_vals l) as [r'|] eqn:E; [|discriminate]. injection H as <-.
    constructor; auto.
  - discriminate.
Qed.

Theorem interp_2d_columnwise m ts cols fl fr tq r :
  interp_2d m ts cols fl fr tq = Val r ->
  Forall2 (fun col rc => interp_array m ts col fl fr tq = Val rc) cols r.
Proof.
  unfold interp_2d. destruct (list_eqb tq ts) eqn:E; intros H.
  - injection H as <-. induction cols as [|c cols IH]; cbn; constructor; auto.
    unfold interp_array. now rewrite E.
  - apply all_vals_Forall2 in H. revert r H.
    induction cols as [|c cols IH]; intros r H; cbn in H; inversion H; subst; constructor; auto.
Qed.

(* ---- numeric vs symbolic ------------------------------------------------------------------------ *)
Theorem numeric_eq_symbolic_inside m ts fs fl fr t :
  wfk ts fs -> hdq ts <= t -> t <= lastq ts ->
  xsame (core_val m ts fs fl fr t) (XFin (interp1d m ts fs t)).
Proof.
  intros W H1 H2. pose proof W as (Hi & Hne & Hlen). unfold interp1d.
  assert (0 < length ts)%nat as H0 by (destruct ts; cbn; [congruence|lia]).
  destruct (Qle_bool t (hdq ts)) eqn:E1.
  - apply Qle_bool_iff in E1. rewrite (hdq_nth fs).
    apply core_val_knot; auto. rewrite <- hdq_nth. lra.
  - destruct (Qle_bool (lastq ts) t) eqn:E2.
    + apply Qle_bool_iff in E2.
      assert (fs <> []) as Hnf by (destruct fs; cbn in *; [lia|discriminate]).
      rewrite (lastq_nth fs Hnf), Hlen.
      apply core_val_knot; auto; try lia. rewrite <- lastq_nth by auto. lra.
    + rewrite core_val_inside by auto. destruct m; apply xsame_refl.
Qed.

Theorem numeric_eq_symbolic_outside m ts fs t :
  hdq ts <= lastq ts -> (t < hdq ts \/ lastq ts < t) ->
  xsame (core_val m ts fs (Some (XFin (hdq fs))) (Some (XFin (lastq fs))) t)
        (XFin (interp1d m ts fs t)).
Proof.
  intros H0 [H|H]; unfold core_val, interp1d.
  - assert (Qlt_bool t (hdq ts) = true) as -> by (apply Qlt_bool_iff; auto).
    assert (Qle_bool t (hdq ts) = true) as -> by (apply Qle_bool_iff; lra).
    apply xsame_refl.
  - assert (Qlt_bool t (hdq ts) = false) as -> by (apply Qlt_bool_false; lra).
    assert (Qlt_bool (lastq ts) t = true) as -> by (apply Qlt_bool_iff; auto).
    assert (Qle_bool t (hdq ts) = false) as -> by (apply Qle_bool_false; lra).
    assert (Qle_bool (lastq ts) t = true) as -> by (apply Qle_bool_iff; lra).
    apply xsame_refl.
Qed.
