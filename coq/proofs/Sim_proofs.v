From Coq Require Import ZArith QArith Qabs List Bool Arith Lia Lqa.
From RT Require Import Xq Interp Expr Transcribe Sim Interp_proofs Transcribe_proofs.
Import ListNotations.
Open Scope Q_scope.

(* a root of the step residual satisfies the model equations at the new time with the new inputs,
   and every derivative equals the backward difference of its state over the step *)
Theorem root_is_step eqs x_new x_old der alg inp par t dt :
  Forall (fun r => r == 0) (step_residual eqs x_new x_old der alg inp par t dt) ->
  Forall (fun r => r == 0) (evals (sim_env x_new der alg inp par t) eqs) /\
  forall k, (k < length x_new)%nat -> qnth der k == (qnth x_new k - qnth x_old k) / dt.
Proof.
  unfold step_residual. intros H. apply Forall_app in H. destruct H as (H1 & H2). split; auto.
  intros k Hk. rewrite Forall_forall in H2.
  assert (Hin : In (qnth der k - (qnth x_new k - qnth x_old k) / dt)
                   (map (fun k => qnth der k - (qnth x_new k - qnth x_old k) / dt) (seq 0 (length x_new)))).
  { apply in_map_iff. exists k. split; auto. apply in_seq. lia. }
  specialize (H2 _ Hin). lra.
Qed.

(* simulation and optimisation define the same trajectories: with the derivatives replaced by the
   difference quotients, the simulator's model rows are the theta = 1 collocation rows *)
Theorem sim_rows_are_theta1_rows (F : list Q -> list Q -> list Q -> list Q -> Q -> list Q) P X m i der :
  der = fd_at P X m i ->
  F (vars_at P X m (S i)) der (cin_at P m (S i)) (par_of P m) (qnth (times P) (S i) - t0 P) =
  res1 F P X m i.
Proof. intros ->. reflexivity. Qed.

Theorem theta1_step_is_res1 F P X m i : theta P == 1 -> ~ theta P == 0 ->
  step_rows F P X m i = res1 F P X m i.
Proof.
  intros H1 H0. unfold step_rows.
  assert (Qeq_bool (theta P) 0 = false) as -> by (apply Qeq_bool_false; auto).
  assert (Qeq_bool (theta P) 1 = true) as -> by (apply Qeq_bool_iff; auto). reflexivity.
Qed.

(* non-integer delays: the weighted combination is the linear interpolation of the delayed
   expression at t - tau between its samples at t - n dt and t - (n-1) dt *)
Theorem delay_weight_is_linear_interpolation n tau dt t e_nm1 e_n :
  0 < dt ->
  let a := t - inject_Z (Z.of_nat n) * dt in
  delayed_value n tau dt e_nm1 e_n == e_n + (e_nm1 - e_n) * (((t - tau) - a) / dt).
Proof.
  intros Hdt a. unfold delayed_value, delay_weight, a. field. lra.
Qed.

Theorem delay_weight_range n tau dt : 0 < dt ->
  (inject_Z (Z.of_nat n) - 1) * dt < tau -> tau <= inject_Z (Z.of_nat n) * dt ->
  0 <= delay_weight n tau dt /\ delay_weight n tau dt < 1.
Proof.
  intros Hdt H1 H2. unfold delay_weight.
  assert (tau / dt * dt == tau) by (field; lra).
  assert (Hq : (inject_Z (Z.of_nat n) - 1) < tau / dt).
  { apply (Qmult_lt_r _ _ dt Hdt). lra. }
  assert (Hq2 : tau / dt <= inject_Z (Z.of_nat n)).
  { apply (Qmult_le_r _ _ dt Hdt). lra. }
  lra.
Qed.

Theorem zero_delay_identity tau dt e_nm1 e_n : 0 < dt -> tau == 0 ->
  delayed_value 1 tau dt e_nm1 e_n == e_nm1.
Proof.
  intros Hdt Ht. unfold delayed_value, delay_weight.
  assert (tau / dt == 0) as -> by (rewrite Ht; field; lra). cbn. ring.
Qed.

(* outputs are recorded at every step including t0: k successful updates after initialize give
   k + 1 entries; a failed step raises instead of recording *)
Theorem outputs_every_step k :
  outputs_recorded (repeat (SimUpdate true) k ++ [SimInit]) = Some (S k).
Proof. induction k as [|k IH]; cbn; auto. now rewrite IH. Qed.

Theorem failed_step_raises pre post : outputs_recorded (pre ++ SimUpdate false :: post) = None.
Proof.
  induction pre as [|e pre IH]; cbn; auto.
  destruct e as [|[|]]; cbn; rewrite ?IH; auto.
Qed.
