From Coq Require Import ZArith QArith List Bool Arith Lia.
From RT Require Import Homotopy HomotopySpec Homotopy_proofs HomotopyGp.
Import ListNotations.
Open Scope Q_scope.

(* ---- one homotopy step: the priorities -------------------------------------------------------- *)
Lemma inner_spec r oracle : forall j k seed b evs,
  inner r oracle j k seed = (b, evs) ->
  chk_events j k seed evs = true /\
  b = (all_ok evs && Nat.eqb (length evs) r)%bool /\
  (length evs <= r)%nat /\
  (b = false -> all_ok evs = false).
Proof.
  induction r as [|r IH]; intros j k seed b evs H; cbn [inner] in H.
  - inversion H; subst. cbn. repeat split; auto; try discriminate.
  - destruct (oracle k) eqn:Ho.
    + destruct (inner r oracle (S j) (S k) (Some (S k))) as [b' t] eqn:Hi.
      inversion H; subst b evs. clear H.
      destruct (IH _ _ _ _ _ Hi) as (C & B & L & Fz).
      cbn [chk_events g_idx g_prio g_seed g_ok all_ok forallb length].
      rewrite !Nat.eqb_refl, C.
      assert (Hs : match seed, seed with None, None => true | Some a, Some b => Nat.eqb a b | _, _ => false end = true)
        by (destruct seed; auto using Nat.eqb_refl).
      rewrite Hs. cbn [andb].
      repeat split.
      * destruct t; reflexivity.
      * cbn [Nat.eqb]. exact B.
      * lia.
      * intros Hb. apply Fz in Hb. exact Hb.
    + inversion H; subst b evs. clear H.
      cbn [chk_events g_idx g_prio g_seed g_ok all_ok forallb length].
      rewrite !Nat.eqb_refl.
      assert (Hs : match seed, seed with None, None => true | Some a, Some b => Nat.eqb a b | _, _ => false end = true)
        by (destruct seed; auto using Nat.eqb_refl).
      rewrite Hs. cbn. repeat split; auto. lia.
Qed.

(* ---- the seeds of every solve ----------------------------------------------------------------- *)
Lemma hot_not_start (o : opts) th : Qlt_bool (theta_start o) th = true -> Qeq_bool th (theta_start o) = false.
Proof.
  unfold Qlt_bool. intros H. apply negb_true_iff in H.
  destruct (Qeq_bool th (theta_start o)) eqn:E; auto.
  apply Qeq_bool_iff in E. assert (Qle_bool th (theta_start o) = true) by (apply Qle_bool_iff; rewrite E; apply Qle_refl).
  congruence.
Qed.

Lemma gloop_seeds fuel o np oracle : forall k th dl acc tag ret steps,
  (Qeq_bool th (theta_start o) = false -> tag <> None) ->
  gloop fuel o np oracle k th dl acc tag = (Some ret, steps) ->
  chk_steps o np k tag steps = true.
Proof.
  induction fuel as [|fuel IH]; intros k th dl acc tag ret steps Inv H; cbn [gloop] in H; [discriminate|].
  destruct (inner np oracle 0 k (if Qlt_bool (theta_start o) th then tag else None)) as [ok evs] eqn:Hi.
  destruct (inner_spec _ _ _ _ _ _ _ Hi) as (C & B & L & Fz).
  assert (Hhot : (if Qlt_bool (theta_start o) th then match tag with Some _ => true | None => false end else true) = true).
  { destruct (Qlt_bool (theta_start o) th) eqn:Eh; auto.
    apply hot_not_start in Eh. specialize (Inv Eh). destruct tag; congruence. }
  assert (Hhead : forall rest,
     chk_steps o np (k + length evs) (if ok then Some (k + length evs)%nat else tag) rest = true ->
     chk_steps o np k tag
       ({| s_theta := th; s_ok := ok; s_seed_theta := if Qlt_bool (theta_start o) th then Some acc else None; s_events := evs |} :: rest) = true).
  { intros rest Hr. cbn [chk_steps s_events s_theta s_ok].
    rewrite Hhot, C, Hr. rewrite <- B. rewrite eqb_reflx.
    assert ((length evs <=? np)%nat = true) by (apply Nat.leb_le; exact L). rewrite H0.
    destruct ok; cbn; auto. rewrite Fz; auto. }
  destruct ok.
  - destruct (Qge_bool th 1).
    + inversion H; subst. apply Hhead. reflexivity.
    + destruct (step th dl) as [th' dl'].
      destruct (gloop fuel o np oracle (k + length evs) th' dl' th (Some (k + length evs)%nat)) as [r t] eqn:Hl.
      inversion H; subst. apply Hhead. eapply IH; [|exact Hl]. intros _. discriminate.
  - destruct (Qeq_bool th (theta_start o)) eqn:Eq.
    + inversion H; subst. apply Hhead. reflexivity.
    + destruct (Qlt_bool (dl * (1 # 2)) (delta_min o)).
      * inversion H; subst. apply Hhead. reflexivity.
      * destruct (step acc (dl * (1 # 2))) as [th' dl'].
        destruct (gloop fuel o np oracle (k + length evs) th' dl' acc tag) as [r t] eqn:Hl.
        inversion H; subst. apply Hhead. eapply IH; [|exact Hl]. intros _. apply Inv. reflexivity.
Qed.

Theorem grun_seeds fuel o np oracle ret steps :
  grun fuel o np oracle = (Some ret, steps) -> seeds_ok o np steps = true.
Proof.
  unfold grun, seeds_ok. apply gloop_seeds.
  intros H. exfalso.
  assert (Qeq_bool (theta_start o) (theta_start o) = true) by (apply Qeq_bool_iff; reflexivity). congruence.
Qed.

(* ---- refinement: seen from outside, it is the homotopy loop of Homotopy.v ------------------------ *)
Lemma oracle_mid (pre : list bool) a rest : oracle_of (pre ++ a :: rest) (length pre) = a.
Proof. unfold oracle_of. apply nth_middle. Qed.

Lemma gloop_refines fuel o np oracle : forall k th dl acc tag ret steps pre,
  gloop fuel o np oracle k th dl acc tag = (Some ret, steps) ->
  loop fuel o (oracle_of (pre ++ map s_ok steps)) (length pre) th dl acc = (Some ret, map s_event steps).
Proof.
  induction fuel as [|fuel IH]; intros k th dl acc tag ret steps pre H; cbn [gloop] in H; [discriminate|].
  destruct (inner np oracle 0 k (if Qlt_bool (theta_start o) th then tag else None)) as [ok evs] eqn:Hi.
  set (s := {| s_theta := th; s_ok := ok; s_seed_theta := if Qlt_bool (theta_start o) th then Some acc else None; s_events := evs |}) in *.
  assert (Hstep : forall t pre', pre' = pre ++ [ok] ->
            pre ++ map s_ok (s :: t) = pre' ++ map s_ok t /\ length pre' = S (length pre)).
  { intros t pre' ->. split; [cbn; rewrite <- app_assoc; reflexivity| rewrite app_length; cbn; lia]. }
  destruct ok.
  - destruct (Qge_bool th 1) eqn:G1.
    + inversion H; subst. cbn [loop map]. rewrite oracle_mid. cbn [s_ok s]. rewrite G1. reflexivity.
    + destruct (step th dl) as [th' dl'] eqn:Hs.
      destruct (gloop fuel o np oracle (k + length evs) th' dl' th (Some (k + length evs)%nat)) as [r t] eqn:Hl.
      inversion H; subst r steps. clear H.
      cbn [loop]. cbn [map]. rewrite oracle_mid. cbn [s_ok s]. rewrite G1, Hs.
      destruct (Hstep t _ eq_refl) as [E1 E2]. cbn [map s_ok s] in E1.
      change (true :: map s_ok t) with (s_ok s :: map s_ok t).
      cbn [s_ok s]. rewrite E1, <- E2.
      rewrite (IH _ _ _ _ _ _ _ (pre ++ [true]) Hl). reflexivity.
  - destruct (Qeq_bool th (theta_start o)) eqn:Eq.
    + inversion H; subst. cbn [loop map]. rewrite oracle_mid. cbn [s_ok s]. rewrite Eq. reflexivity.
    + destruct (Qlt_bool (dl * (1 # 2)) (delta_min o)) eqn:Lm.
      * inversion H; subst. cbn [loop map]. rewrite oracle_mid. cbn [s_ok s]. rewrite Eq, Lm. reflexivity.
      * destruct (step acc (dl * (1 # 2))) as [th' dl'] eqn:Hs.
        destruct (gloop fuel o np oracle (k + length evs) th' dl' acc tag) as [r t] eqn:Hl.
        inversion H; subst r steps. clear H.
        cbn [loop]. cbn [map]. rewrite oracle_mid. cbn [s_ok s]. rewrite Eq, Lm, Hs.
        destruct (Hstep t _ eq_refl) as [E1 E2]. cbn [map s_ok s] in E1.
        rewrite E1, <- E2.
        rewrite (IH _ _ _ _ _ _ _ (pre ++ [false]) Hl). reflexivity.
Qed.

Theorem grun_refines fuel o np oracle ret steps :
  grun fuel o np oracle = (Some ret, steps) ->
  run fuel o (oracle_of (map s_ok steps)) = (Some ret, map s_event steps).
Proof. intros H. exact (gloop_refines _ _ _ _ _ _ _ _ _ _ _ [] H). Qed.

Corollary grun_protocol fuel o np oracle ret steps :
  wf o -> grun fuel o np oracle = (Some ret, steps) -> trace_ok o 0 ret (map s_event steps) = true.
Proof. intros W H. eapply protocol; [exact W|]. eapply grun_refines; exact H. Qed.
