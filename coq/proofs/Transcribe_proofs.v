From Coq Require Import ZArith QArith List Bool Arith Lia Lqa.
From RT Require Import Xq Interp Expr Transcribe.
Import ListNotations.
Open Scope Q_scope.

(* ---- the decision-vector layout is a partition --------------------------------------------------- *)
(* every slot of the decision vector, listed in layout order *)
Definition control_slots (P : problem) : list nat :=
  flat_map (fun c => seq (var_start P 0 (nsa P + c)) (vlen P (nsa P + c))) (seq 0 (nc P)).

Definition member_slots (P : problem) (m : nat) : list nat :=
  flat_map (fun j => seq (var_start P m j) (vlen P j)) (seq 0 (nsa P)) ++
  flat_map (fun k => seq (pv_start P m k) (nt P)) (seq 0 (npv P)) ++
  map (ev_index P m) (seq 0 (nev P)) ++
  map (idr_index P m) (seq 0 (ns P)).

Definition all_slots (P : problem) : list nat :=
  control_slots P ++ flat_map (member_slots P) (seq 0 (nE P)).

Lemma seq_app_consec a n m : seq a n ++ seq (a + n) m = seq a (n + m).
Proof. now rewrite seq_app. Qed.

Lemma sumn_S f k : sumn f (S k) = (sumn f k + f k)%nat.
Proof. reflexivity. Qed.

(* consecutive blocks of lengths f 0, f 1, ... starting at a *)
Lemma blocks_seq (f : nat -> nat) a k :
  flat_map (fun j => seq (a + sumn f j) (f j)) (seq 0 k) = seq a (sumn f k).
Proof.
  induction k as [|k IH].
  - reflexivity.
  - rewrite seq_S, flat_map_app, IH. cbn [flat_map seq]. rewrite app_nil_r.
    rewrite sumn_S. apply seq_app_consec.
Qed.

Lemma map_seq_shift a k : map (fun i => (a + i)%nat) (seq 0 k) = seq a k.
Proof.
  revert a. induction k as [|k IH]; intros a; cbn [seq map]; auto.
  rewrite Nat.add_0_r. f_equal. rewrite <- seq_shift, map_map.
  rewrite <- (IH (S a)). apply map_ext. intros i. lia.
Qed.

Lemma const_blocks_seq a w k :
  flat_map (fun j => seq (a + j * w) w) (seq 0 k) = seq a (k * w).
Proof.
  induction k as [|k IH].
  - reflexivity.
  - rewrite seq_S, flat_map_app, IH. cbn [flat_map seq]. rewrite app_nil_r.
    replace (a + (0 + k) * w)%nat with (a + k * w)%nat by lia.
    rewrite seq_app_consec. f_equal. lia.
Qed.

Lemma flat_map_ext_in {A B} (f g : A -> list B) l :
  (forall x, In x l -> f x = g x) -> flat_map f l = flat_map g l.
Proof.
  induction l as [|a l IH]; cbn; intros H; auto. rewrite H, IH; auto.
Qed.

Lemma control_slots_seq P : control_slots P = seq 0 (ctl_size P).
Proof.
  unfold control_slots, ctl_size.
  rewrite <- (blocks_seq (fun c => vlen P (nsa P + c)) 0 (nc P)).
  apply flat_map_ext_in. intros c Hc. apply in_seq in Hc.
  unfold var_start. assert ((nsa P + c <? nsa P) = false) as -> by (apply Nat.ltb_ge; lia).
  replace (nsa P + c - nsa P)%nat with c by lia. reflexivity.
Qed.

Lemma member_slots_seq P m : member_slots P m = seq (base P m) (member_size P).
Proof.
  unfold member_slots, member_size.
  assert (H1 : flat_map (fun j => seq (var_start P m j) (vlen P j)) (seq 0 (nsa P)) =
               seq (base P m) (sa_size P)).
  { unfold sa_size. rewrite <- (blocks_seq (vlen P) (base P m) (nsa P)).
    apply flat_map_ext_in. intros j Hj. apply in_seq in Hj. unfold var_start.
    assert ((j <? nsa P) = true) as -> by (apply Nat.ltb_lt; lia). reflexivity. }
  assert (H2 : flat_map (fun k => seq (pv_start P m k) (nt P)) (seq 0 (npv P)) =
               seq (base P m + sa_size P) (npv P * nt P)).
  { unfold pv_start. apply const_blocks_seq. }
  assert (H3 : map (ev_index P m) (seq 0 (nev P)) = seq (base P m + sa_size P + npv P * nt P) (nev P)).
  { unfold ev_index. apply map_seq_shift. }
  assert (H4 : map (idr_index P m) (seq 0 (ns P)) =
               seq (base P m + sa_size P + npv P * nt P + nev P) (ns P)).
  { unfold idr_index. apply map_seq_shift. }
  rewrite H1, H2, H3, H4. rewrite !seq_app_consec. f_equal. lia.
Qed.

(* C01/C05: the slots of all variables of all members, in layout order, are exactly 0 .. |X|-1:
   pairwise disjoint, nothing missing, nothing beyond the vector *)
Theorem layout_partition P : all_slots P = seq 0 (xsize P).
Proof.
  unfold all_slots, xsize. rewrite control_slots_seq.
  assert (H : flat_map (member_slots P) (seq 0 (nE P)) = seq (ctl_size P) (nE P * member_size P)).
  { rewrite <- (const_blocks_seq (ctl_size P) (member_size P) (nE P)).
    apply flat_map_ext_in. intros m _. rewrite member_slots_seq. reflexivity. }
  rewrite H. apply (seq_app_consec 0).
Qed.

Corollary layout_nodup P : NoDup (all_slots P).
Proof. rewrite layout_partition. apply seq_NoDup. Qed.

(* ---- theta-method rows --------------------------------------------------------------------------- *)
Lemma Qeq_bool_true a b : Qeq_bool a b = true -> a == b.
Proof. apply Qeq_bool_iff. Qed.

(* the theta = 0 and theta = 1 shortcuts are instances of the general blend *)
Lemma blend_0 th r0 : forall r1, th == 0 -> length r0 = length r1 ->
  Forall2 Qeq r0 (blend th r0 r1).
Proof.
  unfold blend. induction r0 as [|a r0 IH]; intros [|b r1] Hth Hl; cbn in *; try discriminate; constructor.
  - rewrite Hth. ring.
  - apply IH; auto.
Qed.

Lemma blend_1 th r0 : forall r1, th == 1 -> length r0 = length r1 ->
  Forall2 Qeq r1 (blend th r0 r1).
Proof.
  unfold blend. induction r0 as [|a r0 IH]; intros [|b r1] Hth Hl; cbn in *; try discriminate; constructor.
  - rewrite Hth. ring.
  - apply IH; auto.
Qed.

Lemma Forall2_Qeq_refl l : Forall2 Qeq l l.
Proof. induction l; constructor; auto. reflexivity. Qed.

Lemma blend_length th r0 r1 : length (blend th r0 r1) = Nat.min (length r0) (length r1).
Proof. unfold blend. now rewrite map_length, combine_length. Qed.

Lemma blend_nth th r0 : forall r1 e, (e < length r0)%nat -> (e < length r1)%nat ->
  nth e (blend th r0 r1) 0 = (1 - th) * nth e r0 0 + th * nth e r1 0.
Proof.
  unfold blend. induction r0 as [|a r0 IH]; intros [|b r1] e H0 H1; cbn in *; try lia.
  destruct e; auto. apply IH; lia.
Qed.

Section Rows.
  Variable F F0 : list Q -> list Q -> list Q -> list Q -> Q -> list Q.
  Variable PathObj : list Q -> list Q -> list Q -> list Q -> Q -> list Q -> list Q -> Q.
  Variable PathCon : list Q -> list Q -> list Q -> list Q -> Q -> list Q -> list Q -> list Q.
  Variable neq neq0 ncon : nat.
  Hypothesis F_len : forall v d c p t, length (F v d c p t) = neq.
  Hypothesis F0_len : forall v d c p t, length (F0 v d c p t) = neq0.
  Hypothesis PathCon_len : forall v d c p t pv ev, length (PathCon v d c p t pv ev) = ncon.

  (* C01: for every theta the rows of step i are (1-theta) F(z_i, zdot, c_i, p, t_i - t0) +
     theta F(z_{i+1}, zdot, c_{i+1}, p, t_{i+1} - t0), zdot the difference quotient over the step *)
  Theorem step_rows_is_theta_blend P X m i :
    Forall2 Qeq (step_rows F P X m i) (blend (theta P) (res0 F P X m i) (res1 F P X m i)).
  Proof.
    unfold step_rows.
    assert (Hl : length (res0 F P X m i) = length (res1 F P X m i))
      by (unfold res0, res1; now rewrite !F_len).
    destruct (Qeq_bool (theta P) 0) eqn:E0.
    - apply blend_0; auto. now apply Qeq_bool_true.
    - destruct (Qeq_bool (theta P) 1) eqn:E1.
      + apply blend_1; auto. now apply Qeq_bool_true.
      + apply Forall2_Qeq_refl.
  Qed.

  Lemma step_rows_length P X m i : length (step_rows F P X m i) = neq.
  Proof.
    unfold step_rows. destruct (Qeq_bool _ 0); [unfold res0; apply F_len|].
    destruct (Qeq_bool _ 1); [unfold res1; apply F_len|].
    rewrite blend_length. unfold res0, res1. rewrite !F_len. lia.
  Qed.

  Lemma flat_map_const_length {A B} (f : A -> list B) k l :
    (forall x, length (f x) = k) -> length (flat_map f l) = (length l * k)%nat.
  Proof.
    intros H. induction l as [|a l IH]; cbn; auto. rewrite app_length, H, IH. lia.
  Qed.

  (* no step, no equation is skipped: one block of |F| rows per step *)
  Theorem collocation_rows_length P X m :
    length (collocation_rows F P X m) = ((nt P - 1) * neq)%nat.
  Proof.
    unfold collocation_rows. rewrite (flat_map_const_length _ neq).
    - now rewrite seq_length.
    - intros i. apply step_rows_length.
  Qed.

  (* row e of step i sits at position i*|F| + e *)
  Lemma nth_flat_map_const {B} (f : nat -> list B) k d : forall cnt start i e,
    (forall x, length (f x) = k) -> (i < cnt)%nat -> (e < k)%nat ->
    nth (i * k + e) (flat_map f (seq start cnt)) d = nth e (f (start + i)%nat) d.
  Proof.
    induction cnt as [|cnt IH]; intros start i e Hk Hi He; [lia|].
    cbn [seq flat_map]. destruct i as [|i].
    - cbn [Nat.mul Nat.add]. rewrite app_nth1 by (rewrite Hk; lia). now rewrite Nat.add_0_r.
    - rewrite app_nth2 by (rewrite Hk; lia). rewrite Hk.
      replace (S i * k + e - k)%nat with (i * k + e)%nat by lia.
      rewrite IH; auto; try lia. f_equal. f_equal. lia.
  Qed.

  Theorem collocation_row_position P X m i e :
    (i < nt P - 1)%nat -> (e < neq)%nat ->
    nth (i * neq + e) (collocation_rows F P X m) 0 = nth e (step_rows F P X m i) 0.
  Proof.
    intros Hi He. unfold collocation_rows.
    rewrite (nth_flat_map_const (step_rows F P X m) neq 0 (nt P - 1) 0 i e); auto.
    intros x. apply step_rows_length.
  Qed.

  Theorem initial_rows_length P X m : length (initial_rows F F0 P X m) = (neq + neq0)%nat.
  Proof. unfold initial_rows. now rewrite app_length, F_len, F0_len. Qed.

  (* path constraints: one block of ncon rows per collocation time, t0 included *)
  Lemma path_con_at_length P X m i : length (path_con_at PathCon P X m i) = ncon.
  Proof. destruct i; cbn; apply PathCon_len. Qed.

  Theorem path_rows_length P X m : length (path_rows PathCon P X m) = (nt P * ncon)%nat.
  Proof.
    unfold path_rows. rewrite (flat_map_const_length _ ncon).
    - now rewrite seq_length.
    - intros i. apply path_con_at_length.
  Qed.

  Theorem path_row_position P X m i c :
    (i < nt P)%nat -> (c < ncon)%nat ->
    nth (i * ncon + c) (path_rows PathCon P X m) 0 = nth c (path_con_at PathCon P X m i) 0.
  Proof.
    intros Hi Hc. unfold path_rows.
    rewrite (nth_flat_map_const (path_con_at PathCon P X m) ncon 0 (nt P) 0 i c); auto.
    intros x. apply path_con_at_length.
  Qed.
End Rows.

(* the bounds of the path-constraint rows are laid out the same way: row i*ncon + c carries the
   bounds of constraint c at collocation time i *)
Definition wf_bspec (b : bspec) : Prop :=
  match b with BSeries ts vals => length vals = length ts | _ => True end.

Lemma list_eqb_length a : forall b, list_eqb a b = true -> length a = length b.
Proof.
  induction a as [|x a IH]; intros [|y b] H; cbn in *; try discriminate; auto.
  apply andb_true_iff in H. destruct H as (_ & H). f_equal. now apply IH.
Qed.

Lemma bound_at_length b o md tg : wf_bspec b -> length (bound_at b o md tg) = length tg.
Proof.
  intros W. destruct b as [|x|ts vals|vals]; cbn; rewrite ?map_length, ?seq_length; auto.
  destruct (interp_array md ts vals (Some o) (Some o) tg) as [l|] eqn:E; [|now rewrite map_length].
  unfold interp_array in E. destruct (list_eqb tg ts) eqn:El.
  - injection E as <-. rewrite map_length. cbn in W. rewrite W. symmetry. now apply list_eqb_length.
  - unfold core_array in E. destruct (existsb _ tg); [discriminate|]. injection E as <-.
    now rewrite map_length.
Qed.

Lemma nth_map_in {A B} (f : A -> B) (l : list A) i d d' : (i < length l)%nat ->
  nth i (map f l) d' = f (nth i l d).
Proof.
  revert i. induction l as [|a l IH]; intros i H; cbn in *; [lia|].
  destruct i; auto. apply IH. lia.
Qed.

(* ---- bounds of path-constraint rows are aligned with the rows ---------------------------------- *)
Theorem path_bounds_position P bs i c :
  Forall (fun b => wf_bspec (fst b) /\ wf_bspec (snd b)) bs ->
  (i < nt P)%nat -> (c < length bs)%nat ->
  length (path_bounds P bs) = (nt P * length bs)%nat /\
  nth (i * length bs + c) (path_bounds P bs) (XNaN, XNaN) =
    (nth i (bound_at (fst (nth c bs (BNone, BNone))) XNInf Linear (times P)) XNaN,
     nth i (bound_at (snd (nth c bs (BNone, BNone))) XPInf Linear (times P)) XNaN).
Proof.
  intros W Hi Hc. unfold path_bounds.
  set (cols := map (fun b => combine (bound_at (fst b) XNInf Linear (times P))
                                      (bound_at (snd b) XPInf Linear (times P))) bs).
  assert (Hlen : forall x, length (map (fun col : list (Xq * Xq) => nth x col (XNaN, XNaN)) cols) = length bs).
  { intros x. unfold cols. now rewrite !map_length. }
  split.
  - rewrite (flat_map_const_length _ (length bs)); auto. now rewrite seq_length.
  - rewrite (nth_flat_map_const (fun i => map (fun col => nth i col (XNaN, XNaN)) cols)
               (length bs) (XNaN, XNaN) (nt P) 0 i c); auto.
    cbn [Nat.add].
    rewrite (nth_map_in (fun col : list (Xq * Xq) => nth i col (XNaN, XNaN)) cols c [] (XNaN, XNaN))
      by (unfold cols; rewrite map_length; lia).
    unfold cols.
    rewrite (nth_map_in _ bs c (BNone, BNone) []) by lia.
    rewrite Forall_forall in W. destruct (W (nth c bs (BNone, BNone)) (nth_In _ _ Hc)) as (W1 & W2).
    apply combine_nth. rewrite !bound_at_length; auto.
Qed.

(* ---- variable bounds ------------------------------------------------------------------------------ *)
(* a finite or infinite bound divided by a positive nominal, multiplied back, is the bound *)
Definition xmulq (x : Xq) (n : Q) : Xq :=
  match x with
  | XFin q => XFin (q * n)
  | XNaN => XNaN
  | XPInf => if Qlt_bool 0 n then XPInf else XNInf
  | XNInf => if Qlt_bool 0 n then XNInf else XPInf
  end.

Lemma Qlt_bool_true a b : a < b -> Qlt_bool a b = true.
Proof.
  intros H. unfold Qlt_bool. rewrite negb_true_iff. destruct (Qle_bool b a) eqn:E; auto.
  apply Qle_bool_iff in E. lra.
Qed.

Theorem bounds_physical x n : 0 < n -> xsame (xmulq (xdiv x n) n) x.
Proof.
  intros Hn. destruct x as [| |q|]; cbn [xdiv xmulq]; rewrite ?(Qlt_bool_true _ _ Hn);
    cbn [xmulq]; rewrite ?(Qlt_bool_true _ _ Hn); cbn [xsame]; auto.
  field. lra.
Qed.

(* a decision-vector entry inside its scaled box is, in physical units, inside the user's bounds *)
Theorem feasible_in_box lb ub n x : 0 < n ->
  xle (xdiv lb n) (XFin x) = true -> xle (XFin x) (xdiv ub n) = true ->
  xle lb (XFin (n * x)) = true /\ xle (XFin (n * x)) ub = true.
Proof.
  intros Hn H1 H2. split.
  - destruct lb as [| |q|]; cbn in *; rewrite ?(Qlt_bool_true _ _ Hn) in *; cbn in *; auto; try discriminate.
    apply Qle_bool_iff in H1. apply Qle_bool_iff.
    assert (q / n * n <= x * n) by (apply Qmult_le_compat_r; lra).
    assert (q / n * n == q) by (field; lra). lra.
  - destruct ub as [| |q|]; cbn in *; rewrite ?(Qlt_bool_true _ _ Hn) in *; cbn in *; auto; try discriminate.
    apply Qle_bool_iff in H2. apply Qle_bool_iff.
    assert (x * n <= q / n * n) by (apply Qmult_le_compat_r; lra).
    assert (q / n * n == q) by (field; lra). lra.
Qed.

(* the box of collocated variable j: one entry per own time stamp; without history, entry i is the
   declared bound at that stamp divided by the nominal *)
Theorem var_bounds_no_history P m j i :
  hist_of P m j = None ->
  wf_bspec (nth j (lower P) BNone) -> wf_bspec (nth j (upper P) BNone) -> (i < vlen P j)%nat ->
  length (var_bounds P m j) = vlen P j /\
  nth i (var_bounds P m j) (XNaN, XNaN) =
    (xdiv (nth i (bound_at (nth j (lower P) BNone) XNInf (nth j (vmode P) Linear) (nth j (vtimes P) [])) XNaN)
          (qnth (nom P) j),
     xdiv (nth i (bound_at (nth j (upper P) BNone) XPInf (nth j (vmode P) Linear) (nth j (vtimes P) [])) XNaN)
          (qnth (nom P) j)).
Proof.
  intros Hh Wl Wu Hi. unfold var_bounds. rewrite Hh. unfold vlen in *.
  split.
  - rewrite combine_length, !map_length, !bound_at_length; auto. lia.
  - rewrite combine_nth by (rewrite !map_length, !bound_at_length; auto).
    f_equal; apply (nth_map_in (fun x => xdiv x (qnth (nom P) j))); rewrite bound_at_length; auto.
Qed.

(* the three kinds of bound: missing side = unbounded, scalar = broadcast, Timeseries = interpolated
   at the variable's own stamps (C19), the missing side outside its range *)
Theorem bound_kinds o md tg :
  bound_at BNone o md tg = map (fun _ => o) tg /\
  (forall x, bound_at (BScalar x) o md tg = map (fun _ => x) tg) /\
  (forall ts vals l, interp_array md ts vals (Some o) (Some o) tg = Val l ->
                     bound_at (BSeries ts vals) o md tg = l).
Proof. repeat split; auto. intros ts vals l H. cbn. now rewrite H. Qed.

(* a known history value at t0 pins the first entry, overriding the box *)
Theorem history_pin P m j h v :
  hist_of P m j = Some h -> hist_last h = XFin v -> (0 < vlen P j)%nat ->
  wf_bspec (nth j (lower P) BNone) -> wf_bspec (nth j (upper P) BNone) ->
  nth 0 (var_bounds P m j) (XNaN, XNaN) = (XFin (v / qnth (nom P) j), XFin (v / qnth (nom P) j)) /\
  length (var_bounds P m j) = vlen P j.
Proof.
  intros Hh Hl Hv Wl Wu. unfold var_bounds. rewrite Hh, Hl. unfold vlen in *.
  set (l := combine _ _).
  assert (length l = length (nth j (vtimes P) [])) as Hlen.
  { unfold l. rewrite combine_length, !map_length, !bound_at_length; auto. lia. }
  destruct l as [|x rest]; cbn in *; [lia|]. split; auto.
Qed.

(* an unknown (NaN) history value leaves the box alone *)
Theorem history_nan_no_pin P m j h :
  hist_of P m j = Some h -> hist_last h = XNaN ->
  var_bounds P m j =
  combine (map (fun x => xdiv x (qnth (nom P) j))
               (bound_at (nth j (lower P) BNone) XNInf (nth j (vmode P) Linear) (nth j (vtimes P) [])))
          (map (fun x => xdiv x (qnth (nom P) j))
               (bound_at (nth j (upper P) BNone) XPInf (nth j (vmode P) Linear) (nth j (vtimes P) []))).
Proof. intros Hh Hl. unfold var_bounds. now rewrite Hh, Hl. Qed.

(* two or more history points pin the initial derivative to their backward difference *)
Theorem init_der_pin P m j h ta tb va vb :
  hist_of P m j = Some h -> last2 (h_times h) = Some (ta, tb) ->
  last2 (h_vals h) = Some (XFin va, XFin vb) ->
  idr_bounds P m j = (XFin (((vb - va) / (t0 P - ta)) / idr_nominal P j),
                      XFin (((vb - va) / (t0 P - ta)) / idr_nominal P j)).
Proof. intros Hh Ht Hv. unfold idr_bounds. now rewrite Hh, Ht, Hv. Qed.

(* ... and when the t0 value is unknown the same relation is imposed as an equality row *)
Theorem init_der_row P m j h ta tb va X :
  hist_of P m j = Some h -> last2 (h_times h) = Some (ta, tb) ->
  last2 (h_vals h) = Some (XFin va, XNaN) ->
  idr_bounds P m j = (XNInf, XPInf) /\
  ((j < ns P)%nat ->
     In (idr_nominal P j * xget X (idr_index P m j) - (cval P X m j 0 - va) / (t0 P - ta))
        (init_der_rows P X m)).
Proof.
  intros Hh Ht Hv. split.
  - unfold idr_bounds. now rewrite Hh, Ht, Hv.
  - intros Hj. unfold init_der_rows. apply in_flat_map. exists j. split.
    + apply in_seq. lia.
    + rewrite Hh, Ht, Hv. now left.
Qed.

(* ---- C07: ensemble members are isolated ---------------------------------------------------------- *)
(* default discretisation: every control has the same index at every time for all members *)
Theorem controls_shared P m m' j : (nsa P <= j)%nat -> var_start P m j = var_start P m' j.
Proof.
  intros H. unfold var_start. assert ((j <? nsa P) = false) as -> by (apply Nat.ltb_ge; lia). reflexivity.
Qed.

(* states, algebraics, path and extra variables, initial derivatives of different members never
   share an index *)
Theorem member_blocks_disjoint P m m' k :
  m <> m' -> In k (member_slots P m) -> In k (member_slots P m') -> False.
Proof.
  intros Hne H1 H2. rewrite member_slots_seq in H1, H2. apply in_seq in H1. apply in_seq in H2.
  unfold base in *. destruct (Nat.lt_ge_cases m m') as [Hlt|Hge]; nia.
Qed.

Definition agree_on (slots : list nat) (X X' : list Q) : Prop :=
  forall k, In k slots -> xget X k = xget X' k.

Lemma slot_of_var P m j k : (j < nv P)%nat -> (k < vlen P j)%nat ->
  In (var_start P m j + k)%nat (control_slots P ++ member_slots P m).
Proof.
  intros Hj Hk. apply in_app_iff. destruct (Nat.lt_ge_cases j (nsa P)) as [Hs|Hc].
  - right. unfold member_slots. apply in_app_iff. left. apply in_flat_map. exists j. split.
    + apply in_seq. lia.
    + apply in_seq. lia.
  - left. unfold control_slots. apply in_flat_map. exists (j - nsa P)%nat. split.
    + apply in_seq. unfold nv, nsa in *. lia.
    + replace (nsa P + (j - nsa P))%nat with j by lia.
      rewrite (controls_shared P 0 m j Hc). apply in_seq. lia.
Qed.

Lemma slot_of_idr P m j : (j < ns P)%nat -> In (idr_index P m j) (control_slots P ++ member_slots P m).
Proof.
  intros Hj. apply in_app_iff. right. unfold member_slots. rewrite !in_app_iff. right. right. right.
  apply in_map. apply in_seq. lia.
Qed.

Lemma slot_of_pv P m k i : (k < npv P)%nat -> (i < nt P)%nat ->
  In (pv_start P m k + i)%nat (control_slots P ++ member_slots P m).
Proof.
  intros Hk Hi. apply in_app_iff. right. unfold member_slots. rewrite !in_app_iff. right. left.
  apply in_flat_map. exists k. split; apply in_seq; lia.
Qed.

Lemma slot_of_ev P m k : (k < nev P)%nat -> In (ev_index P m k) (control_slots P ++ member_slots P m).
Proof.
  intros Hk. apply in_app_iff. right. unfold member_slots. rewrite !in_app_iff. right. right. left.
  apply in_map. apply in_seq. lia.
Qed.

Section NonInterference.
  Variable P : problem.
  Variable m : nat.
  Variables X X' : list Q.
  Hypothesis HX : agree_on (control_slots P ++ member_slots P m) X X'.
  (* every collocated variable on the collocation grid has one entry per collocation time *)

  Lemma cval_agree j i : (j < nv P)%nat -> (i < nt P)%nat -> cval P X m j i = cval P X' m j i.
  Proof.
    intros Hj Hi. unfold cval. destruct (Nat.eqb (vlen P j) (nt P)) eqn:E.
    - apply Nat.eqb_eq in E. f_equal. apply HX. apply slot_of_var; auto. lia.
    - f_equal. f_equal. unfold slice. apply map_ext_in. intros k Hk. apply in_seq in Hk.
      apply HX. apply slot_of_var; auto. lia.
  Qed.

  Lemma vars_at_agree i : (i < nt P)%nat -> vars_at P X m i = vars_at P X' m i.
  Proof.
    intros Hi. unfold vars_at. apply map_ext_in. intros j Hj. apply in_seq in Hj.
    apply cval_agree; auto. lia.
  Qed.

  Lemma fd_at_agree i : (S i < nt P)%nat -> fd_at P X m i = fd_at P X' m i.
  Proof.
    intros Hi. unfold fd_at. apply map_ext_in. intros j Hj. apply in_seq in Hj.
    rewrite !(cval_agree j) by lia. reflexivity.
  Qed.

  Lemma init_ders_agree : init_ders P X m = init_ders P X' m.
  Proof.
    unfold init_ders. apply map_ext_in. intros j Hj. apply in_seq in Hj.
    destruct (j <? ns P) eqn:E; auto. apply Nat.ltb_lt in E. f_equal. apply HX. now apply slot_of_idr.
  Qed.

  Lemma pv_at_agree i : (i < nt P)%nat -> pv_at P X m i = pv_at P X' m i.
  Proof.
    intros Hi. unfold pv_at. apply map_ext_in. intros k Hk. apply in_seq in Hk.
    f_equal. apply HX. apply slot_of_pv; auto. lia.
  Qed.

  Lemma ev_of_agree : ev_of P X m = ev_of P X' m.
  Proof.
    unfold ev_of. apply map_ext_in. intros k Hk. apply in_seq in Hk.
    f_equal. apply HX. apply slot_of_ev. lia.
  Qed.

  Variable F F0 : list Q -> list Q -> list Q -> list Q -> Q -> list Q.
  Variable PathObj : list Q -> list Q -> list Q -> list Q -> Q -> list Q -> list Q -> Q.
  Variable PathCon : list Q -> list Q -> list Q -> list Q -> Q -> list Q -> list Q -> list Q.

  Hypothesis Hnt : (0 < nt P)%nat.

  (* the dynamics, initial conditions, path constraints and path objective of member m read the
     decision vector only at member m's own slots and at the (shared) control slots *)
  Theorem member_rows_agree :
    collocation_rows F P X m = collocation_rows F P X' m /\
    initial_rows F F0 P X m = initial_rows F F0 P X' m /\
    init_der_rows P X m = init_der_rows P X' m /\
    path_rows PathCon P X m = path_rows PathCon P X' m /\
    (forall i, (i < nt P)%nat -> path_env_obj PathObj P X m i = path_env_obj PathObj P X' m i).
  Proof.
    assert (Hpc : forall i, (i < nt P)%nat -> path_con_at PathCon P X m i = path_con_at PathCon P X' m i).
    { intros [|i] Hi; cbn [path_con_at].
      - now rewrite (vars_at_agree 0), init_ders_agree, (pv_at_agree 0), ev_of_agree by lia.
      - now rewrite (vars_at_agree (S i)), (fd_at_agree i), (pv_at_agree (S i)), ev_of_agree by lia. }
    repeat split.
    - unfold collocation_rows. apply flat_map_ext_in. intros i Hi. apply in_seq in Hi.
      unfold step_rows, res0, res1.
      rewrite (vars_at_agree i), (vars_at_agree (S i)), (fd_at_agree i) by lia. reflexivity.
    - unfold initial_rows. now rewrite (vars_at_agree 0), init_ders_agree by lia.
    - unfold init_der_rows. apply flat_map_ext_in. intros j Hj. apply in_seq in Hj.
      destruct (hist_of P m j) as [h|]; auto.
      destruct (last2 (h_times h)) as [[ta tb]|]; auto.
      destruct (last2 (h_vals h)) as [[[| |va|] [| |vb|]]|]; auto.
      rewrite (cval_agree j 0) by (unfold nv; lia).
      f_equal. f_equal. f_equal. apply HX. apply slot_of_idr. lia.
    - unfold path_rows. apply flat_map_ext_in. intros i Hi. apply in_seq in Hi. apply Hpc. lia.
    - intros [|i] Hi; cbn [path_env_obj].
      + now rewrite (vars_at_agree 0), init_ders_agree, (pv_at_agree 0), ev_of_agree by lia.
      + now rewrite (vars_at_agree (S i)), (fd_at_agree i), (pv_at_agree (S i)), ev_of_agree by lia.
  Qed.
End NonInterference.

(* ---- no other member's data enters ---------------------------------------------------------------- *)
Definition same_shape (P P' : problem) : Prop :=
  times P = times P' /\ theta P = theta P' /\ nE P = nE P' /\ ns P = ns P' /\ na P = na P' /\
  nc P = nc P' /\ npv P = npv P' /\ nev P = nev P' /\ vtimes P = vtimes P' /\ vmode P = vmode P' /\
  nom P = nom P' /\ nom_pv P = nom_pv P' /\ nom_ev P = nom_ev P'.

Definition same_member_data (m : nat) (P P' : problem) : Prop :=
  nth m (cin P) [] = nth m (cin P') [] /\ nth m (par P) [] = nth m (par P') [] /\
  nth m (history P) [] = nth m (history P') [] /\
  nth 0 (history P) [] = nth 0 (history P') [].   (* member 0's history sets the scaling of the
                                                      initial derivatives of every member *)

Theorem member_data_isolated F F0 PathObj PathCon P P' m X :
  same_shape P P' -> same_member_data m P P' ->
  collocation_rows F P X m = collocation_rows F P' X m /\
  initial_rows F F0 P X m = initial_rows F F0 P' X m /\
  init_der_rows P X m = init_der_rows P' X m /\
  path_rows PathCon P X m = path_rows PathCon P' X m /\
  (forall i, path_env_obj PathObj P X m i = path_env_obj PathObj P' X m i).
Proof.
  intros (H1 & H2 & H3 & H4 & H5 & H6 & H7 & H8 & H9 & H10 & H11 & H12 & H13) (D1 & D2 & D3 & D4).
  destruct P, P'. cbn in *. subst.
  unfold collocation_rows, initial_rows, init_der_rows, path_rows, path_env_obj, path_con_at,
    step_rows, res0, res1, vars_at, fd_at, cin_at, par_of, init_ders, idr_nominal, hist_of,
    pv_at, ev_of, t0, cval, var_start, pv_start, ev_index, idr_index, base, member_size,
    ctl_size, sa_size, vlen, nsa, nv, nt. cbn.
  rewrite D1, D2, D3, D4. repeat split; reflexivity.
Qed.

(* ---- C08: nominals only rescale ------------------------------------------------------------------- *)
(* everything the rows and the objective read from (nominals, X) is the physical view *)
Record view := {
  w_vars : nat -> list Q;      (* collocated variables at collocation time i, physical units *)
  w_fd : nat -> list Q;        (* difference quotients over step i *)
  w_idr : list Q;              (* derivatives at t0 *)
  w_pv : nat -> list Q;
  w_ev : list Q
}.

Definition view_of (P : problem) (X : list Q) (m : nat) : view :=
  {| w_vars := vars_at P X m; w_fd := fd_at P X m; w_idr := init_ders P X m;
     w_pv := pv_at P X m; w_ev := ev_of P X m |}.

Section Factor.
  Variable F F0 : list Q -> list Q -> list Q -> list Q -> Q -> list Q.
  Variable PathObj : list Q -> list Q -> list Q -> list Q -> Q -> list Q -> list Q -> Q.
  Variable PathCon : list Q -> list Q -> list Q -> list Q -> Q -> list Q -> list Q -> list Q.

  (* rows written over a view and the nominal-free part of the problem *)
  Definition step_rows_v (P : problem) (w : view) (m i : nat) : list Q :=
    let r0 := F (w_vars w i) (w_fd w i) (cin_at P m i) (par_of P m) (qnth (times P) i - t0 P) in
    let r1 := F (w_vars w (S i)) (w_fd w i) (cin_at P m (S i)) (par_of P m) (qnth (times P) (S i) - t0 P) in
    if Qeq_bool (theta P) 0 then r0 else if Qeq_bool (theta P) 1 then r1 else blend (theta P) r0 r1.

  Definition path_con_v (P : problem) (w : view) (m i : nat) : list Q :=
    match i with
    | O => PathCon (w_vars w 0%nat) (w_idr w) (cin_at P m 0) (par_of P m) 0 (w_pv w 0%nat) (w_ev w)
    | S i' => PathCon (w_vars w i) (w_fd w i') (cin_at P m i) (par_of P m)
                      (qnth (times P) i - t0 P) (w_pv w i) (w_ev w)
    end.

  Definition path_obj_v (P : problem) (w : view) (m i : nat) : Q :=
    match i with
    | O => PathObj (w_vars w 0%nat) (w_idr w) (cin_at P m 0) (par_of P m) 0 (w_pv w 0%nat) (w_ev w)
    | S i' => PathObj (w_vars w i) (w_fd w i') (cin_at P m i) (par_of P m)
                      (qnth (times P) i - t0 P) (w_pv w i) (w_ev w)
    end.

  Theorem rows_factor_through_view P X m :
    collocation_rows F P X m = flat_map (step_rows_v P (view_of P X m) m) (seq 0 (nt P - 1)) /\
    initial_rows F F0 P X m =
      (let w := view_of P X m in
       F (w_vars w 0%nat) (w_idr w) (cin_at P m 0) (par_of P m) 0 ++
       F0 (w_vars w 0%nat) (w_idr w) (cin_at P m 0) (par_of P m) 0) /\
    path_rows PathCon P X m = flat_map (path_con_v P (view_of P X m) m) (seq 0 (nt P)) /\
    (forall i, path_env_obj PathObj P X m i = path_obj_v P (view_of P X m) m i).
  Proof.
    repeat split; try reflexivity;
      try (unfold path_rows; apply flat_map_ext_in; intros [|i] _; reflexivity);
      try (intros [|i]; reflexivity).
  Qed.
End Factor.

(* two scalings of the same physical trajectory: entry by entry N*x = N'*x' *)
Theorem rescale_cval P P' X X' m j i :
  vlen P j = nt P -> vlen P' j = nt P' -> var_start P m j = var_start P' m j ->
  qnth (nom P) j * xget X (var_start P m j + i) == qnth (nom P') j * xget X' (var_start P' m j + i) ->
  cval P X m j i == cval P' X' m j i.
Proof.
  intros H1 H2 H3 H4. unfold cval. rewrite H1, H2, !Nat.eqb_refl. exact H4.
Qed.

(* x' = x * N / N' is such a rescaling *)
Lemma rescale_entry n n' x : 0 < n' -> n' * (x * n / n') == n * x.
Proof. intros H. field. lra. Qed.

(* ---- C05: every entry of the decision vector is boxed exactly once ----------------------------- *)
Lemma scalar_bounds_length lo hi n tg : wf_bspec lo -> wf_bspec hi ->
  length (scalar_bounds lo hi n tg) = length tg.
Proof.
  intros W1 W2. unfold scalar_bounds. rewrite combine_length, !map_length, !bound_at_length; auto. lia.
Qed.

Definition wf_bounds (P : problem) : Prop :=
  (forall j, wf_bspec (nth j (lower P) BNone) /\ wf_bspec (nth j (upper P) BNone)) /\
  (forall k, wf_bspec (nth k (lower_pv P) BNone) /\ wf_bspec (nth k (upper_pv P) BNone)) /\
  (forall k, wf_bspec (nth k (lower_ev P) BNone) /\ wf_bspec (nth k (upper_ev P) BNone)).

Lemma var_bounds_length P m j : wf_bounds P -> length (var_bounds P m j) = vlen P j.
Proof.
  intros (W & _). destruct (W j) as (Wl & Wu). unfold var_bounds, vlen.
  set (l := combine _ _).
  assert (Hl : length l = length (nth j (vtimes P) [])).
  { unfold l. rewrite combine_length, !map_length, !bound_at_length; auto. lia. }
  destruct (hist_of P m j) as [h|]; auto.
  destruct (hist_last h); auto. destruct l; cbn in *; auto.
Qed.

Lemma flat_map_seq_length {B} (f : nat -> list B) k :
  length (flat_map f (seq 0 k)) = sumn (fun j => length (f j)) k.
Proof.
  induction k as [|k IH]; auto.
  rewrite seq_S, flat_map_app, app_length, IH. cbn [flat_map]. rewrite app_nil_r.
  cbn [sumn Nat.add]. reflexivity.
Qed.

Lemma sumn_ext f g k : (forall j, (j < k)%nat -> f j = g j) -> sumn f k = sumn g k.
Proof.
  induction k as [|k IH]; intros H; auto. cbn. rewrite IH, H; auto.
Qed.

Lemma sumn_const c k : sumn (fun _ => c) k = (k * c)%nat.
Proof. induction k as [|k IH]; auto. cbn. rewrite IH. lia. Qed.

Lemma pin_controls_length P j ms : forall l, length (pin_controls P j l ms) = length l.
Proof.
  induction ms as [|m ms IH]; intros l; cbn; auto.
  rewrite IH. destruct (hist_of P m j) as [h|]; auto.
  destruct (hist_last h); auto. destruct l; auto.
Qed.

Theorem x_bounds_length P : wf_bounds P -> length (x_bounds P) = xsize P.
Proof.
  intros W. pose proof W as (Wc & Wp & We).
  unfold x_bounds, xsize. rewrite app_length. f_equal.
  - unfold ctl_size. rewrite flat_map_seq_length. apply sumn_ext. intros c Hc.
    unfold control_bounds. rewrite pin_controls_length.
    destruct (Wc (nsa P + c)%nat) as (Wl & Wu).
    rewrite combine_length, !map_length, !bound_at_length; auto. unfold vlen. lia.
  - rewrite flat_map_seq_length. rewrite (sumn_ext _ (fun _ => member_size P)).
    + apply sumn_const.
    + intros m Hm. unfold member_bounds, member_size. rewrite !app_length.
      rewrite !flat_map_seq_length, map_length, seq_length.
      assert (L1 : sumn (fun j => length (var_bounds P m j)) (nsa P) = sumn (vlen P) (nsa P))
        by (apply sumn_ext; intros; now apply var_bounds_length).
      assert (L2 : sumn (fun j => length (scalar_bounds (nth j (lower_pv P) BNone) (nth j (upper_pv P) BNone)
                                                        (qnth (nom_pv P) j) (times P))) (npv P)
                   = sumn (fun _ => nt P) (npv P)).
      { apply sumn_ext. intros k Hk. destruct (Wp k). rewrite scalar_bounds_length; auto. }
      assert (L3 : sumn (fun j => length (scalar_bounds (nth j (lower_ev P) BNone) (nth j (upper_ev P) BNone)
                                                        (qnth (nom_ev P) j) [t0 P])) (nev P)
                   = sumn (fun _ => 1%nat) (nev P)).
      { apply sumn_ext. intros k Hk. destruct (We k). rewrite scalar_bounds_length; auto. }
      rewrite L1, L2, L3.
      rewrite !sumn_const. unfold sa_size. lia.
Qed.

Lemma init_ders_free P X m j : (j < ns P)%nat ->
  nth j (init_ders P X m) 0 = idr_nominal P j * xget X (idr_index P m j).
Proof.
  intros Hj. unfold init_ders.
  rewrite (nth_map_in _ (seq 0 (nv P)) j 0%nat 0) by (rewrite seq_length; unfold nv; lia).
  rewrite seq_nth by (unfold nv; lia). cbn [Nat.add].
  assert ((j <? ns P) = true) as -> by (apply Nat.ltb_lt; lia). reflexivity.
Qed.
