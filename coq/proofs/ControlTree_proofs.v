From Coq Require Import ZArith QArith List Bool Arith Lia Permutation.
From RT Require Import Xq ControlTree.
Import ListNotations.

(* ---- argmax returns a position inside the range -------------------------------------------------- *)
Lemma argmax_from_lt f n start best bestv :
  (best < start)%nat -> (argmax_from f n start best bestv < start + n)%nat.
Proof.
  revert start best bestv. induction n as [|n IH]; intros start best bestv Hb; cbn; [lia|].
  destruct (xlt bestv (f start)).
  - specialize (IH (S start) start (f start) ltac:(lia)). lia.
  - specialize (IH (S start) best bestv ltac:(lia)). lia.
Qed.

Lemma argmax_lt f n : (0 < n)%nat -> (argmax f n < n)%nat.
Proof.
  destruct n as [|n]; [lia|]. intros _. unfold argmax.
  pose proof (argmax_from_lt f n 1 0 (f 0%nat) ltac:(lia)). lia.
Qed.

(* ---- mem ---------------------------------------------------------------------------------------------- *)
Lemma mem_In x l : mem x l = true <-> In x l.
Proof.
  unfold mem. rewrite existsb_exists. split.
  - intros (y & Hy & E). apply Nat.eqb_eq in E. subst. exact Hy.
  - intros H. exists x. split; [exact H|apply Nat.eqb_refl].
Qed.

Lemma mem_false x l : mem x l = false <-> ~ In x l.
Proof. rewrite <- mem_In. destruct (mem x l); split; congruence. Qed.

Lemma NoDup_snoc (l : list nat) x : NoDup l -> ~ In x l -> NoDup (l ++ [x]).
Proof.
  induction 1 as [|y l Hy Hnd IH]; intros Hx; cbn; [constructor; [intros []|constructor]|].
  constructor.
  - intros Hin. apply in_app_or in Hin. destruct Hin as [Hin|[<-|[]]]; [contradiction|]. apply Hx. left. reflexivity.
  - apply IH. intros Hin. apply Hx. right. exact Hin.
Qed.

(* ---- the seeds: distinct members, at most k ----------------------------------------------------------- *)
Section Seeds.
  Variable d : nat -> nat -> Q.

  Definition good_idx (members seeds : list nat) (idx : option nat) : Prop :=
    match idx with
    | None => True
    | Some p => (p < length members)%nat /\ ~ In (nth p members 0%nat) seeds
    end.

  Lemma next_idx_good members seeds' :
    members <> [] ->
    let f := min_to_seeds d members seeds' in
    let p' := argmax f (length members) in
    good_idx members seeds'
      (match f p' with
       | XFin v => if Qle_bool v 0 then None else Some p'
       | XPInf => Some p'
       | _ => None
       end).
  Proof.
    intros Hne f p'.
    assert (Hp : (p' < length members)%nat).
    { apply argmax_lt. destruct members; [congruence|cbn; lia]. }
    assert (Hns : f p' <> XNInf -> ~ In (nth p' members 0%nat) seeds').
    { unfold f, min_to_seeds. destruct (mem (nth p' members 0%nat) seeds') eqn:E; [congruence|].
      intros _. apply mem_false. exact E. }
    destruct (f p') as [| |v|] eqn:E; cbn; auto.
    - destruct (Qle_bool v 0); cbn; auto. split; [exact Hp|apply Hns; discriminate].
    - split; [exact Hp|apply Hns; discriminate].
  Qed.

  Lemma pick_seeds_spec fuel members seeds idx :
    members <> [] -> NoDup seeds -> incl seeds members -> good_idx members seeds idx ->
    let r := pick_seeds d fuel members seeds idx in
    NoDup r /\ incl r members /\ (length r <= length seeds + fuel)%nat /\
    (forall s, In s seeds -> In s r) /\
    (idx <> None -> (0 < fuel)%nat -> (length seeds < length r)%nat).
  Proof.
    intros Hne. revert seeds idx. induction fuel as [|fuel IH]; intros seeds idx Hnd Hincl Hgood; cbn.
    - repeat split; auto; try lia.
    - destruct idx as [p|].
      + destruct Hgood as (Hp & Hnew).
        set (seeds' := seeds ++ [nth p members 0%nat]).
        assert (Hnd' : NoDup seeds').
        { unfold seeds'. apply NoDup_snoc; auto. }
        assert (Hincl' : incl seeds' members).
        { unfold seeds'. intros x Hx. apply in_app_or in Hx. destruct Hx as [Hx|[<-|[]]]; [apply Hincl; exact Hx|].
          apply nth_In. exact Hp. }
        assert (Hl : length seeds' = S (length seeds)) by (unfold seeds'; rewrite app_length; cbn; lia).
        pose proof (next_idx_good members seeds' Hne) as Hg. cbv zeta in Hg.
        specialize (IH seeds' _ Hnd' Hincl' Hg).
        cbv zeta in IH. destruct IH as (H1 & H2 & H3 & H4 & H5).
        fold seeds'.
        repeat split; auto.
        * rewrite Hl in H3. lia.
        * intros s Hs. apply H4. unfold seeds'. apply in_or_app. left. exact Hs.
        * intros _ _.
          assert (Hlen : (length seeds' <= length (pick_seeds d fuel members seeds'
             match min_to_seeds d members seeds' (argmax (min_to_seeds d members seeds') (length members)) with
             | XFin v => if Qle_bool v 0 then None else Some (argmax (min_to_seeds d members seeds') (length members))
             | XPInf => Some (argmax (min_to_seeds d members seeds') (length members))
             | _ => None
             end))%nat).
          { apply NoDup_incl_length; [exact Hnd'|]. intros x Hx. apply H4. exact Hx. }
          rewrite Hl in Hlen. lia.
      + repeat split; auto; try lia; try congruence.
  Qed.
End Seeds.

(* ---- list lemmas ------------------------------------------------------------------------------------------ *)
Lemma NoDup_app_intro (a b : list nat) :
  NoDup a -> NoDup b -> (forall x, In x a -> ~ In x b) -> NoDup (a ++ b).
Proof.
  induction 1 as [|x a Hx Hnd IH]; intros Hb Hdis; cbn; [exact Hb|].
  constructor.
  - intros Hin. apply in_app_or in Hin. destruct Hin as [Hin|Hin]; [contradiction|].
    apply (Hdis x (or_introl eq_refl)). exact Hin.
  - apply IH; [exact Hb|]. intros y Hy. apply Hdis. right. exact Hy.
Qed.

Lemma seeds_and_rest (s l : list nat) :
  NoDup s -> NoDup l -> incl s l -> Permutation (s ++ filter (fun m => negb (mem m s)) l) l.
Proof.
  intros Hs Hl Hincl. apply NoDup_Permutation.
  - apply NoDup_app_intro; [exact Hs|apply NoDup_filter; exact Hl|].
    intros x Hx Hf. apply filter_In in Hf. destruct Hf as (_ & Hf). cbv beta in Hf.
    apply negb_true_iff, mem_false in Hf. contradiction.
  - exact Hl.
  - intros x. rewrite in_app_iff, filter_In. split.
    + intros [H|(H & _)]; [apply Hincl; exact H|exact H].
    + intros H. destruct (mem x s) eqn:E; [left; apply mem_In; exact E|right; split; [exact H|reflexivity]].
Qed.

Lemma insert_sorted_perm x l : Permutation (insert_sorted x l) (x :: l).
Proof.
  induction l as [|y l IH]; cbn; [reflexivity|]. destruct (x <=? y); [reflexivity|].
  rewrite IH. apply perm_swap.
Qed.

Lemma sort_perm l : Permutation (fold_right insert_sorted [] l) l.
Proof. induction l as [|x l IH]; cbn; [reflexivity|]. rewrite insert_sorted_perm, IH. reflexivity. Qed.

Lemma flat_map_nil {A} (l : list nat) : flat_map (fun _ : nat => @nil A) l = [].
Proof. induction l; cbn; auto. Qed.

Lemma insert_one (a : nat) (g : nat -> list nat) i0 n start :
  Permutation (flat_map (fun i => (if Nat.eqb i0 i then [a] else []) ++ g i) (seq start n))
              ((if (start <=? i0) && (i0 <? start + n) then [a] else []) ++ flat_map g (seq start n)).
Proof.
  revert start. induction n as [|n IH]; intros start; cbn [seq flat_map].
  - replace ((start <=? i0) && (i0 <? start + 0)) with false; [reflexivity|].
    symmetry. apply andb_false_iff. destruct (Nat.leb_spec start i0); [right; apply Nat.ltb_ge; lia|left; reflexivity].
  - rewrite (IH (S start)).
    destruct (Nat.eqb_spec i0 start) as [->|Hne].
    + replace ((S start <=? start) && (start <? S start + n)) with false
        by (symmetry; apply andb_false_iff; left; apply Nat.leb_gt; lia).
      replace ((start <=? start) && (start <? start + S n)) with true
        by (symmetry; apply andb_true_iff; split; [apply Nat.leb_refl|apply Nat.ltb_lt; lia]).
      cbn. reflexivity.
    + assert (Hb : ((start <=? i0) && (i0 <? start + S n)) = ((S start <=? i0) && (i0 <? S start + n))).
      { destruct (Nat.leb_spec start i0), (Nat.leb_spec (S start) i0),
          (Nat.ltb_spec i0 (start + S n)), (Nat.ltb_spec i0 (S start + n)); try lia; reflexivity. }
      rewrite Hb.
      destruct ((S start <=? i0) && (i0 <? S start + n)); cbn [app]; [|reflexivity].
      symmetry. apply Permutation_middle.
Qed.

Lemma partition_perm (f : nat -> nat) n (l : list nat) :
  (forall m, In m l -> (f m < n)%nat) ->
  Permutation (flat_map (fun i => filter (fun m => Nat.eqb (f m) i) l) (seq 0 n)) l.
Proof.
  induction l as [|a l IH]; intros Hf.
  - cbn. rewrite flat_map_nil. reflexivity.
  - assert (E : forall i, filter (fun m => Nat.eqb (f m) i) (a :: l) =
                          (if Nat.eqb (f a) i then [a] else []) ++ filter (fun m => Nat.eqb (f m) i) l).
    { intros i. cbn. destruct (Nat.eqb (f a) i); reflexivity. }
    rewrite (flat_map_ext _ _ E).
    rewrite (insert_one a (fun i => filter (fun m => Nat.eqb (f m) i) l) (f a) n 0).
    pose proof (Hf a (or_introl eq_refl)) as Ha.
    replace ((0 <=? f a) && (f a <? 0 + n)) with true
      by (symmetry; apply andb_true_iff; split; [apply Nat.leb_le; lia|apply Nat.ltb_lt; lia]).
    cbn. constructor. apply IH. intros m Hm. apply Hf. right. exact Hm.
Qed.

Lemma heads_and_tails (h : nat -> nat) (g : nat -> list nat) l :
  Permutation (flat_map (fun i => h i :: g i) l) (map h l ++ flat_map g l).
Proof.
  induction l as [|i l IH]; cbn; [reflexivity|]. constructor.
  rewrite IH. rewrite app_assoc, (Permutation_app_comm (g i) (map h l)), <- app_assoc. reflexivity.
Qed.

Lemma map_nth_seq (s : list nat) : map (fun i => nth i s 0%nat) (seq 0 (length s)) = s.
Proof.
  induction s as [|x s IH]; [reflexivity|]. cbn [length seq map nth]. f_equal.
  rewrite <- seq_shift, map_map. exact IH.
Qed.

(* ---- nearest seed index -------------------------------------------------------------------------------------- *)
Section Nearest.
  Variable d : nat -> nat -> Q.
  Lemma nearest_lt seeds m : forall i best bestv,
    (bestv = None -> seeds <> []) -> (bestv <> None -> (best < i)%nat) ->
    (nearest d seeds m i best bestv < i + length seeds)%nat.
  Proof.
    induction seeds as [|s seeds IH]; intros i best bestv H1 H2; cbn.
    - destruct bestv; [specialize (H2 ltac:(discriminate)); lia|exfalso; apply H1; reflexivity].
    - destruct bestv as [bv|].
      + specialize (H2 ltac:(discriminate)).
        destruct (Qlt_bool (d m s) bv).
        * specialize (IH (S i) i (Some (d m s)) ltac:(discriminate) ltac:(intros _; lia)). lia.
        * specialize (IH (S i) best (Some bv) ltac:(discriminate) ltac:(intros _; lia)). lia.
      + specialize (IH (S i) i (Some (d m s)) ltac:(discriminate) ltac:(intros _; lia)). lia.
  Qed.
End Nearest.

Lemma empty_tail (seeds : list nat) (F : nat -> list nat) n : forall st, (length seeds <= st)%nat ->
  flat_map (fun i => match nth_error seeds i with None => [] | Some s => s :: F i end) (seq st n) = [].
Proof.
  induction n as [|n IH]; intros st Hst; cbn; [reflexivity|].
  assert (E : nth_error seeds st = None) by (apply nth_error_None; exact Hst). rewrite E. cbn.
  apply IH. lia.
Qed.

(* ---- the children of a branch partition its members ------------------------------------------------------------ *)
Theorem children_partition k (d : nat -> nat -> Q) (members : list nat) :
  NoDup members -> members <> [] -> (0 < k)%nat ->
  Permutation (concat (children k d members)) members.
Proof.
  intros Hnd Hne Hk. unfold children.
  set (seeds := seeds_of k d members).
  assert (Hspec : NoDup seeds /\ incl seeds members /\ (length seeds <= k)%nat /\ seeds <> []).
  { unfold seeds, seeds_of.
    assert (Hg : good_idx members [] (Some (argmax (col_max d members) (length members)))).
    { split; [apply argmax_lt; destruct members; [congruence|cbn; lia]|intros []]. }
    pose proof (pick_seeds_spec d k members [] _ Hne (NoDup_nil _) (incl_nil_l _) Hg) as H.
    cbv zeta in H. destruct H as (H1 & H2 & H3 & _ & H5). repeat split; auto.
    specialize (H5 ltac:(discriminate) Hk). cbn in H5. intros E. rewrite E in H5. cbn in H5. lia. }
  destruct Hspec as (Hs1 & Hs2 & Hs3 & Hs4).
  set (rest := fold_right insert_sorted [] (filter (fun m => negb (mem m seeds)) members)).
  rewrite <- flat_map_concat_map.
  replace k with (length seeds + (k - length seeds))%nat by lia.
  rewrite seq_app, flat_map_app.
  (* beyond the last seed the children are empty *)
  assert (Hempty : flat_map (fun i => match nth_error seeds i with
                                      | None => []
                                      | Some s => s :: filter (fun m => Nat.eqb (nearest d seeds m 0 0 None) i) rest
                                      end) (seq (0 + length seeds) (k - length seeds)) = []).
  { apply empty_tail. lia. }
  rewrite Hempty, app_nil_r.
  (* up to the last seed: the seed followed by the members clustered to it *)
  assert (Hin : forall i, In i (seq 0 (length seeds)) ->
                (match nth_error seeds i with
                 | None => []
                 | Some s => s :: filter (fun m => Nat.eqb (nearest d seeds m 0 0 None) i) rest
                 end) = nth i seeds 0%nat :: filter (fun m => Nat.eqb (nearest d seeds m 0 0 None) i) rest).
  { intros i Hi. apply in_seq in Hi. destruct (nth_error seeds i) eqn:E.
    - rewrite (nth_error_nth _ _ _ E). reflexivity.
    - apply nth_error_None in E. lia. }
  assert (Hfm : flat_map (fun i => match nth_error seeds i with
                                   | None => []
                                   | Some s => s :: filter (fun m => Nat.eqb (nearest d seeds m 0 0 None) i) rest
                                   end) (seq 0 (length seeds)) =
                flat_map (fun i => nth i seeds 0%nat :: filter (fun m => Nat.eqb (nearest d seeds m 0 0 None) i) rest)
                         (seq 0 (length seeds))).
  { clear Hempty. induction (seq 0 (length seeds)) as [|i l IHl]; [reflexivity|]. cbn [flat_map].
    rewrite (Hin i (or_introl eq_refl)), IHl; [reflexivity|]. intros j Hj. apply Hin. right. exact Hj. }
  rewrite Hfm, heads_and_tails, map_nth_seq.
  rewrite (partition_perm (fun m => nearest d seeds m 0 0 None) (length seeds) rest).
  - unfold rest. rewrite sort_perm. apply seeds_and_rest; assumption.
  - intros m _. pose proof (nearest_lt d seeds m 0 0 None ltac:(intros _; exact Hs4) ltac:(congruence)). lia.
Qed.

(* consequently: every member is in exactly one child, and the children only contain members *)
Corollary children_cover k d members m :
  NoDup members -> members <> [] -> (0 < k)%nat ->
  (In m members <-> exists c, In c (children k d members) /\ In m c).
Proof.
  intros Hnd Hne Hk. pose proof (children_partition k d members Hnd Hne Hk) as HP. split.
  - intros Hm. apply (Permutation_in _ (Permutation_sym HP)) in Hm. apply in_concat in Hm.
    destruct Hm as (c & Hc & Hmc). exists c. split; assumption.
  - intros (c & Hc & Hmc). apply (Permutation_in _ HP). apply in_concat. exists c. split; assumption.
Qed.

Corollary children_disjoint k d members :
  NoDup members -> members <> [] -> (0 < k)%nat -> NoDup (concat (children k d members)).
Proof.
  intros Hnd Hne Hk. apply (Permutation_NoDup (Permutation_sym (children_partition k d members Hnd Hne Hk))). exact Hnd.
Qed.
