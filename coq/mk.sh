#!/bin/bash
# developer convenience: regenerate _CoqProject/Makefile and build
cd "$(dirname "$0")"
/venv/bin/python -c "
import sys; sys.path.insert(0,'/verif')
from harness import core; core.ensure_makefile()" 2>/dev/null
timeout ${MK_TIMEOUT:-900} make -j16 "$@" 2>&1 | grep -v "^WARNING conda" | tail -${MK_TAIL:-30}
