#!/venv/bin/python
"""Compare a junit xml of the repository's test suite with BASELINE.json's stable_pass list."""
import json
import sys
import xml.etree.ElementTree as ET

base = set(json.load(open("/root/.vp/BASELINE.json"))["stable_pass"])
passed = set()
for tc in ET.parse(sys.argv[1]).getroot().iter("testcase"):
    if not any(c.tag in ("failure", "error", "skipped") for c in tc):
        passed.add("%s::%s" % (tc.get("classname"), tc.get("name")))
missing = sorted(base - passed)
print("baseline %d, passed now %d, baseline tests not passing: %d" % (len(base), len(passed), len(missing)))
for m in missing:
    print("  MISSING", m)
sys.exit(1 if missing else 0)
