#!/venv/bin/python
"""Regenerates /verif/MANIFEST.json from the table below (kept here so the file stays valid)."""
import json
import os

V = os.path.dirname(os.path.dirname(os.path.abspath(__file__)))
ALL = ["C%02d" % i for i in range(1, 21)]

CHECKS = {
    "C13": dict(
        technique="Coq proof (refinement of AliasDict op sequences to a class map, induction over op lists) + correspondence check of the Gallina model against alias_tools.AliasDict via vm_compute",
        text="Machine-checked theorems (C13_get_after_set, C13_frame, C13_refines_class_map, C13_len_classes) about an executable Gallina model of AliasDict for all alias relations, values and operation sequences; the model is tied to the code by running both on generated alias graphs and op sequences every run; a disagreement is judged against the Coq class-map specification.",
        note="Trusted: Coq kernel + vm_compute; harness generators/printers; pymoca AliasRelation is an input (its canonical_signed table, sanity-checked by an independent union-find). No axioms (Print Assumptions: closed). End-to-end alias use inside ModelicaMixin/SimulationProblem is exercised by C14/C09 harnesses, not proved.",
        ref="DESIGN.md §5 C13"),
    "C18": dict(
        technique="Coq proof (loop invariant by induction on fuel for every oracle; termination by an explicit budget argument) + exhaustive correspondence of the Gallina loop against HomotopyMixin.optimize driven by scripted inner solves",
        text="C18_protocol proves, for all options with theta_start in [0,1] and positive increments and for every success/failure oracle, that the trace of the modelled loop satisfies the decidable predicate trace_ok (first solve at theta_start, theta<=1, increase only after success, step back with halved increment after failure, success only by a solve at 1, failure exactly when the first solve fails or the halved increment drops below the minimum, seeding from the last accepted solve); C18_terminates gives an explicit bound on the number of solves. The real loop is run on all scripts up to length 7 (quick) / 11 (thorough) for 26 option triples and compared event by event with the model (dyadic options, exact) and with trace_ok evaluated in Coq (all options). Homotopy around goal programming (HomotopyGp.v): C18_gp_refines proves that the nested loop is the homotopy loop whose n-th inner solve succeeds iff every priority of the n-th step did (so C18_protocol carries over, C18_gp_protocol), C18_gp_seeds that the first priority of a step starts from the final solution of the last fully successful step and never from a rejected one; the real HomotopyMixin over GoalProgrammingMixin is run with a scripted solver returning tagged solutions and compared solve by solve with the model.",
        note="Trusted: Coq kernel + vm_compute; the scripted inner optimize() standing in for the solver; binary64 rounding is not modelled (non-dyadic options are judged by trace_ok with tol 1e-9 only). No axioms. The unrepaired loop violated the property (fixed in /repo 9c3aba5, see known_findings.json).",
        ref="DESIGN.md §5 C18"),
    "C10": dict(
        technique="Coq proof (closed form of the priority loop by induction over the priority list, for every oracle) + exhaustive correspondence of the Gallina loop against GoalProgrammingMixin / SinglePassGoalProgrammingMixin with a scripted solver",
        text="C10_run_is_spec proves that the modelled loop equals a closed-form specification (trace of hooks and solves, return value, which solve's results are exposed) for every goal list and every success/failure oracle; C10_priorities_* prove ascending, duplicate-free priorities made of exactly the non-empty goals; the real optimize() of the multi-pass, keep-soft and both single-pass variants is driven by a scripted casadi_solver over exhaustive failure patterns and compared with the model and the specification evaluated in Coq.",
        note="Trusted: Coq kernel + vm_compute; scripted solver standing in for IPOPT (public casadi_solver option); the user hook flag skip_priority is not modelled. No axioms.",
        ref="DESIGN.md §5 C10"),
    "C19": dict(
        technique="Coq proof (induction over strictly increasing knot vectors; case analysis over bound kinds) + correspondence check of the Gallina models of interpolate / merge_bounds / interp1d against the code via vm_compute",
        text="Theorems C19_exact_at_knots, C19_between_knots, C19_fills_outside, C19_early_exit_sound, C19_arraywise_columnwise, C19_numeric_eq_symbolic about an executable model of OptimizationProblem.interpolate and casadi interp1d for all knot vectors, values, query points, modes and fills; C19_merge_pointwise / C19_merge_operators / C19_merge_rejects_symmetric about a model of merge_bounds for all kinds and shapes. The models are run against the real methods (and the real CasADi interp1d) on generated inputs each run; disagreements are judged against a reference written from the property text.",
        note="Trusted: Coq kernel + vm_compute; harness generators and printers; binary64 rounding in numpy.interp is outside the exact model (linear mode between knots compared to 1e-9, everything else exactly on the float's rational value); NaN function values are not generated. No axioms. A genuine defect (int/float scalar mix rejected by an assertion) was repaired in /repo cfdffd6.",
        ref="DESIGN.md §5 C19"),
    "C02": dict(
        technique="Coq proof (order theory on extended rationals; monotonicity of the constraint store by induction over update sequences; algebra of the hard-constraint formulas) + correspondence of the Gallina models against update_bounds, both hard-constraint builders and the store update, plus real multi-priority solves",
        text="C02_merge_* prove that both update_bounds variants stay within the enforced interval for all (possibly infinite, possibly inconsistent) bounds; C02_store_only_shrinks lifts this to every sequence of store updates; C02_hard_contains_solution / C02_hard_bounds_attainment / C02_minimize_retained prove that the constraint retained for a solved goal admits the achieved value and nothing worse than the recorded attainment beyond the configured relaxations, for every goal kind, nominal, option combination and epsilon. The models are compared with the code on generated intervals, goals, epsilons, options and store sequences (deterministic), and real IPOPT runs of all variants compare the stores after each priority with the model and re-evaluate every earlier goal on every later solution.",
        note="Trusted: Coq kernel + vm_compute; harness; IPOPT for the sampled end-to-end runs (solver regime, tolerance 1e-5; keep-soft/single-pass variants are judged on the priority objective as the property words it); vector goals (size>1) and the objective-constraint bookkeeping of keep_soft/single pass are exercised but not modelled. No axioms. Genuine defect repaired in /repo e4c1064 (enforce=\"self\").",
        ref="DESIGN.md §5 C02"),
    "C01": dict(
        technique='Coq proof (layout partition, theta-method row structure for arbitrary residual functions as Section variables) + correspondence of the executable Gallina transcription model against transcribe() via vm_compute on generated problems',
        text="C01_layout_partition, C01_rows_are_theta_method, C01_nothing_skipped, C01_initial_rows are proved for every residual function, grid, theta, nominal vector, ensemble and decision vector; the model (Transcribe.v) is evaluated in Coq on generated DAE models (non-equidistant grids, t0 != 0, theta in {0,1/4,1/2,3/4,1}, 1-3 members, own control grids, histories) and compared row by row with nlp g of the real transcribe(); a few convex problems are solved with IPOPT and the model's rows must vanish at the returned point.",
        note='Trusted: Coq kernel + vm_compute; harness generators / AST printers (the same AST is built in CasADi and printed as Gallina); transcribe() observed through nlp g/f/lbg/ubg/lbx/ubx at rational probe vectors (1e-8 relative; binary64 rounding not modelled); integrate_states, lookup tables, vector-valued variables and delayed feedback are outside this model. No axioms. A genuine defect (per-member parameters inlined as ensemble constants) was repaired in /repo f81f9b0.',
        ref='DESIGN.md §5 C01'),
    "C05": dict(
        technique='Coq proof (bounds list aligned with the layout, box / pin / initial-derivative characterisations, physical-units lemma) + correspondence of x_bounds and initial-derivative rows against transcribe()',
        text='C05_every_entry_boxed_once, C05_box_spec, C05_bound_kinds, C05_feasible_in_box, C05_history_pin, C05_initial_derivative hold for all problems; lbx/ubx and the initial-derivative rows of the real transcribe() are compared entry by entry with the model over bound kinds x nominals x grids x histories x members.',
        note='Trusted: Coq kernel + vm_compute; harness generators / AST printers (the same AST is built in CasADi and printed as Gallina); transcribe() observed through nlp g/f/lbg/ubg/lbx/ubx at rational probe vectors (1e-8 relative; binary64 rounding not modelled); integrate_states, lookup tables, vector-valued variables and delayed feedback are outside this model. No axioms. Bounds merged from several sources are C19 (merge_bounds) and C14.',
        ref='DESIGN.md §5 C05'),
    "C06": dict(
        technique='Coq proof (objective formula incl. the t0 instance, time-major alignment of path-constraint rows and their bounds) + correspondence of nlp f / g / lbg / ubg against the model; refuted statement for the recorded finding',
        text='C06_objective_spec, C06_path_rows_every_time, C06_path_bounds_aligned, C06_rows_layout are proved for arbitrary objective / constraint functions; C06_t0_derivative_refuted records the known finding. The real transcribe() is compared on generated objectives, path objectives (depending on derivatives), path constraints with scalar / Timeseries / per-member bounds and point constraints, with unequal probabilities.',
        note='Trusted: Coq kernel + vm_compute; harness generators / AST printers (the same AST is built in CasADi and printed as Gallina); transcribe() observed through nlp g/f/lbg/ubg/lbx/ubx at rational probe vectors (1e-8 relative; binary64 rounding not modelled); integrate_states, lookup tables, vector-valued variables and delayed feedback are outside this model. No axioms. Known finding C06-t0-derivative (open): the t0 instance of path expressions sees 0 for the derivative of algebraics/controls instead of the history slope.',
        ref='DESIGN.md §5 C06'),
    "C07": dict(
        technique='Coq proof (non-interference of members in the transcription model; disjoint member blocks; default control sharing) + executable Gallina model of the scenario tree compared with ControlTreeMixin / PlanningMixin, metamorphic isolation runs on transcribe()',
        text="C07_reads_only_own_slots, C07_member_blocks_disjoint, C07_data_isolated, C07_default_sharing are proved for all problems, C07_children_partition / C07_children_cover (children of a scenario-tree branch partition its members) for all distance functions, branching factors and member lists, C07_coinciding_same_child / C07_not_separated_before (members whose forecasts coincide on the deciding segments - distance 0 to each other, equal distances to all others, for any symmetric non-negative distance - are put into the same child, and over the whole tree are not separated by any branch up to that depth, whatever k, the ties and the other members); ControlTree.v mirrors branch()/discretize_control and is compared (tree and sharing classes) with the real mixins on generated forecasts with ties, duplicates and coinciding prefixes, and every case is judged by 'share iff same branch', 'children partition the parent', 'at most k children', 'coinciding forecasts stay together'; isolation is additionally tested metamorphically on the implementation (perturb the last member, all other members' rows and boxes unchanged).",
        note='Trusted: Coq kernel + vm_compute; harness generators / AST printers (the same AST is built in CasADi and printed as Gallina); transcribe() observed through nlp g/f/lbg/ubg/lbx/ubx at rational probe vectors (1e-8 relative; binary64 rounding not modelled); integrate_states, lookup tables, vector-valued variables and delayed feedback are outside this model. No axioms. The hypotheses of the coinciding-members theorems (symmetric, non-negative distances) are checked on every distance table handed to the model; np.int16 index arrays are not modelled.',
        ref='DESIGN.md §5 C07'),
    "C08": dict(
        technique='Coq proof (rows factor through the physical view; rescaling lemmas; bounds physical) + metamorphic pairs of real problems differing only in nominals',
        text='C08_rows_factor_through_physical_view, C08_rescaling, C08_bounds_physical are proved for all problems; pairs of generated problems differing only in nominals (2^-10..2^10, non-dyadic) are transcribed and must give equal rows / objective at corresponding decision vectors and equal physical boxes, and each is compared with the model.',
        note="Trusted: Coq kernel + vm_compute; harness generators / AST printers (the same AST is built in CasADi and printed as Gallina); transcribe() observed through nlp g/f/lbg/ubg/lbx/ubx at rational probe vectors (1e-8 relative; binary64 rounding not modelled); integrate_states, lookup tables, vector-valued variables and delayed feedback are outside this model. No axioms. Seeds (x0 * nominal = the seed given) and own-grid controls are part of the metamorphic pairs. Goal function nominals and the simulator's physical-unit accessors are covered by the C03/C17 and C09 checks.",
        ref='DESIGN.md §5 C08'),
    "C04": dict(
        technique="Coq proof (envelope algebra of the soft constraint rows for all nominals; critical goals as hard intervals; validation = well-formedness by boolean reflection) + correspondence of the Gallina validation model against _gp_validate_goals and real multi-priority solves judged by the envelope",
        text="C04_soft_iff_envelope, C04_envelope_within_range, C04_inactive_steps_free, C04_critical_hard and C04_validate_iff_wellformed / C04_rejections are proved for all goals, targets (incl. NaN / inf steps), ranges, nominals and option combinations; _gp_validate_goals is run on a mostly-valid and a malformed goal stream and must accept exactly what the model accepts; real IPOPT runs of all variants are checked step by step against the envelope of the reported epsilon and for critical goals from their priority on.",
        note="Trusted: Coq kernel + vm_compute; harness; IPOPT for the sampled runs (1e-6). Vector goals are not modelled. No axioms. Known finding C04-critical-conflict-clipped (open): a critical goal contradicting bounds retained from an earlier priority is clipped silently instead of failing.",
        ref="DESIGN.md §5 C04"),
    "C17": dict(
        technique="Coq proof (convexity of x^r over Q via the tangent inequality; chord majorant exact at breakpoints, monotone, convex, within a checked tolerance; |f| epigraph; 1-D QP form) + the decidable breakpoint check evaluated in Coq on the coefficients produced by the code + paired real runs of equivalent formulations",
        text="C17_chords_majorise, C17_chords_exact_at_breaks, C17_chords_monotone_convex, C17_chords_tolerance hold for every order >= 1 and every increasing breakpoint list; check_breaks is run in Coq on the breakpoints recovered from LinearizedOrderGoal._get_linear_coefficients (orders 2-5, four tolerances) so the theorems apply to the actual coefficients; C17_min_abs and C17_qp_form cover the absolute-value and QP front-end algebra. Equivalent formulations are compared by paired real solves: single pass (both methods) vs multi-pass keep_soft, CachingQPSol vs casadi.qpsol (qpOASES, OSQP), expand on/off, map modes, second optimize() vs fresh.",
        note="Trusted: Coq kernel + vm_compute; harness; the solvers (paired runs are solver-regime samples compared to 1e-5; QP plugins run in a forked child with a timeout because HiGHS' QP solver can loop on degenerate problems). Vector-vs-scalar goals and MinAbs-vs-explicit pairs are not yet part of the paired runs. No axioms. Genuine defect repaired in /repo 522ac7c (CachingQPSol Hessian).",
        ref="DESIGN.md §5 C17"),
    "C03": dict(
        technique="Coq proof (soundness of an optimality-certificate checker for convex quadratic goal problems: convexity + duality bound over arbitrary dimensions) + the checker evaluated in Coq on every solved priority of real runs, on a formulation built independently of rtc-tools and compared with the transcribed NLP",
        text="C03_kkt_sound / C03_certified_optimal: if check_cert accepts (x, multipliers) with bound gap then no feasible point of the convex problem has an objective below obj(x) - gap, for any number of variables, rows and order-1/order-2 terms. At every priority of real IPOPT runs (i) the NLP handed to the solver (f, g, lbg, ubg, lbx, ubx at rational points) is compared with the documented subproblem written down independently (gpform.py: weights, orders, soft rows with 0<=eps<=1, retained constraints, probabilities) and evaluated by the Gallina transcription model; (ii) the returned point and multipliers are certified in Coq on that independent formulation: reported objective = documented objective at the point, gap <= 1e-5, violation <= 1e-6; a loose certificate is backed by an independent solve of the independent formulation before any alarm.",
        note="Trusted: Coq kernel + vm_compute; gpform.py (the documented formulation) and the harness; IPOPT multipliers are inputs to a checker that is sound for any multipliers. keep_soft / single-pass objective constraints and scale_by_problem_size are compared by optimal value in C17, not by formulation; orders > 2 and nonlinear goal functions are outside the checker. No axioms.",
        ref="DESIGN.md §5 C03"),
    "C15": dict(
        technique="Coq proof (accessors characterised against the extracted results and the transcription environments, using the interpolation theorems of C19) + correspondence of the Gallina accessor model against state_at / der_at / integral / states_in / map_path_expression / extract_results",
        text="C15_state_at_knot_is_result, C15_state_at_between, C15_state_at_outside_raises, C15_der_at, C15_integral_trapezoid, C15_map_path_expression hold for every problem, decision vector, member, variable with its own increasing grid and interpolation mode; the real accessors are evaluated as CasADi functions of X at a rational vector for queries on / between knots, before t0 (with and without history), after the end, windows with and without knots, and compared with the model.",
        note="Trusted: Coq kernel + vm_compute; harness. Alias names, constant inputs/parameters through state_at, windows reaching into the history and integrate_states are outside the model. No axioms. Two genuine defects repaired in /repo (6922290 state_at scaling before t0, a760dfe integral over a knot-free window).",
        ref="DESIGN.md §5 C15"),
    "C16": dict(
        technique="Coq proof (row characterisation, zero-delay and incomplete-history cases via the interpolation theorems) + correspondence of the Gallina delay model against the delayed-feedback rows of transcribe()",
        text="C16_every_time_has_a_row, C16_row_spec, C16_incomplete_history_extrapolates, C16_zero_delay hold for every problem, delayed expression, delay vector and decision vector; the model (history assembly, enough-history decision incl. NaN scan, interpolation over history ++ horizon, row nominal) is compared with the delay rows of nlp g on generated models with zero / short / long / parameter-dependent delays, complete / short / partial / absent per-member histories, non-equidistant grids and nominals.",
        note="Trusted: Coq kernel + vm_compute; harness. Delayed expressions mentioning constant inputs or time, alias receivers and the simulator's delay buffer (C09) are outside this model. No axioms. Genuine defect repaired in /repo 1a72412 (zero row nominal).",
        ref="DESIGN.md §5 C16"),
    "C09": dict(
        technique="Coq proof (roots of the step residual are backward-Euler steps; identity with the theta = 1 transcription rows; delay-buffer weights = linear interpolation) + the residual model evaluated in Coq on every step of real pymoca-compiled simulations, cross-checked against the optimisation transcription model",
        text="C09_root_is_step, C09_equals_collocation_theta1, C09_outputs_every_step and C09_delay_weight are proved for every equation list, state, step size and delay; generated Modelica models (states, algebraics, negated aliases, nominals, parameters, inputs, bilinear terms, integer and non-integer delays) are compiled by pymoca and run through SimulationProblem+CSVMixin; after initialize() and after each update() all variables are read back and the model equations with der = (x(t+dt)-x(t))/dt and inputs at t+dt are evaluated in Coq on their rational images, the whole trajectory is substituted into the theta = 1 collocation rows of Transcribe.v, delayed variables, exported CSV, fixed starts, input timing, aliases and set_var/get_var round trips are checked, and an unsolvable step must raise.",
        note="Trusted: Coq kernel + vm_compute; harness; pymoca (compiles the generated text); the rootfinder / IPOPT initialisation are judged by their results (residual <= 1e-6 relative). The start-value precedence of initialize() is C14. No axioms. Two genuine defects repaired in /repo (22abefd signed nominals through negated aliases, b01b542 delay in parameter-free models).",
        ref="DESIGN.md §5 C09"),
    "C14": dict(
        technique="Coq proof (bounds are the intersection of declared, inherited and file bounds; fixed start = initial condition; seed rule; positive nominal magnitude; discreteness; roles; override chains; simulator start precedence) + correspondence of the Gallina declaration semantics against real pymoca-compiled models loaded through ModelicaMixin/CSVMixin and SimulationProblem",
        text="18 theorems C14_* are proved for every variable declaration, parameter vector and other bound pair; generated Modelica models (Real/Integer/Boolean variables of every role, min/max/start/nominal as constants or parameter expressions, fixed, output, a negated alias) with generated bound / history / seed series, parameters.csv and code overrides are compiled by pymoca and observed through dae_variables, output_variables, bounds() at every time, history(), seed(), parameters(), variable_nominal(), variable_is_discrete(); simulation models with initial_state.csv and seed() overrides are observed through get_var after initialize(); everything is compared with Modelica.v evaluated in Coq.",
        note="Trusted: Coq kernel + vm_compute; harness; pymoca (compiles the generated text and merges alias attributes). Whether a simulator start value is imposed or a soft target is not observed separately. No axioms. Three genuine defects repaired in /repo (f68aa34 signed nominal through negated alias, 5cbe9db file bound series replaced the declared min/max, 18a2784 variable type through negated alias raised TypeError).",
        ref="DESIGN.md §5 C14"),
    "C11": dict(
        technique="Coq proof (PI read-after-write identity for every well-formed store, padding side and amount, resize index law, six-decimal CSV rounding bound and exactness, typed parameter set/get) + correspondence of the Gallina PI file semantics against the real pi.Timeseries / csv / netcdf / ParameterConfig classes on generated files and operation sequences",
        text="C11_pi_roundtrip (pi_read (pi_write st) = st for every well-formed store: any step or a non-equidistant axis, any ensemble size, any missing pattern, forecast anywhere on the axis), C11_padding_side, C11_resize_keeps, C11_outside_is_missing, C11_csv_precision, C11_csv_exact_on_six_decimals, C11_param_roundtrip, C11_param_keeps_type; generated PI XML files (sub-range series, ensembles with shared series, missing values, forecast on/off/outside the axis, qualifiers, 1 min .. 2 day steps, non-equidistant axes) are read by pi.Timeseries and compared with pi_read in Coq, written back and re-read, resized in sequences and compared with the resize model after every step and after write+read; new files in XML and binary form are re-read and compared with the store (binary at float32) and with pi_read (pi_write st); csv.save/load against fmt6 (both delimiters, decimal commas, empty columns, NaN); NetCDF export/import; ParameterConfig get/set/write/re-read against param_set.",
        note="Trusted: Coq kernel + vm_compute; harness; ElementTree / numpy / netCDF4 codecs are exercised, not modelled; NetCDF has no Coq model (index mapping checked by the harness only); binary PI files are only generated for equidistant axes (the format carries no time stamps); values equal to the file's missVal are excluded (they are missing by the format). No axioms. Eight genuine defects repaired in /repo (ad729a7, 12312f3, c9c1083, 37807ad, b6c2013, 490b91a, 1ecb5c2, b35e79e).",
        ref="DESIGN.md §5 C11"),
    "C12": dict(
        technique="Coq proof (seconds axis is a shift of the datetimes; horizon = non-negative part starting at 0; history = part up to t0; bound series, set_timeseries placement, export row and simulator input-feed alignment laws) + correspondence of the Gallina time-axis model against the real CSV / PI / NetCDF optimisation mixins and CSV / PI simulation mixins on generated input folders, with exports re-read and compared across back-ends",
        text="C12_store_retrieve, C12_horizon_is_nonnegative_part, C12_horizon_starts_at_t0, C12_history_upto_t0, C12_bounds_from_minmax, C12_set_without_times_starts_t0, C12_set_with_times_aligned, C12_export_aligned, C12_sim_input_at_step_end hold for every increasing datetime axis, reference on it, series and index; generated folders (steps of 15 min .. 2 days, t0 anywhere on the axis for PI, 1-3 members, gaps, Min/Max series, history) run through pre(), set/get sequences, optimize()/simulate(); io.datetimes, io.times_sec, times(), history(), bounds(), get_timeseries() per member and the re-read exported files (time stamps, forecast date, values = extract_results at times()) are compared with TimeAxis.v evaluated in Coq, the simulator's outputs are checked against the fed inputs, and the CSV, PI and NetCDF exports of the same data are compared with each other.",
        note="Trusted: Coq kernel + vm_compute; harness; pymoca, IPOPT and the simulator produce the results that the exports are compared with; variables with their own time grid (writer-side interpolation) are not generated. No axioms. Two genuine defects repaired in /repo (8fa3241 NetCDF export time axis beyond one day, bc5cbaf set_timeseries placement of non-contiguous stamps); bounds observed here also rely on 5cbe9db (C14).",
        ref="DESIGN.md §5 C12"),
    "C20": dict(
        technique="Coq proof (local support of the Cox-de Boor basis, hence the guarded sums of BSpline1D/2D equal the reference spline at every point; non-negativity; inverse-lookup decision; cache validity) + three-way evaluation rtc-tools CasADi function / Gallina spline in Coq / SciPy, and checks of fit, inverse and cache reload on generated tables",
        text="C20_local_support, C20_guard_harmless (1-D), C20_guard_harmless_2d, C20_nonneg, C20_sorted_is_mono, C20_range_ordered, C20_reverse_rejects_iff_out_of_range, C20_nan_in_nan_out, C20_cache_valid_iff_newer hold for every non-decreasing knot vector, order, weight vector and evaluation point; generated knot vectors (orders 0-3, clamped/unclamped, repeated knots) are evaluated at knots, ends, mid points and outside by rtc-tools, by the exact Gallina spline and by SciPy; BSpline1D.fit is run on generated tables for every monotonicity/curvature option and judged at its own 100 test points (first differences, SciPy second derivative) and on the data; CSVLookupTableMixin tables are compared with SciPy on the fitted tck over the whole domain, with NaN inputs, reverse_call across and outside the range (increasing and decreasing tables) against reverse_decision, and edit-and-reload sequences with controlled mtimes against cache_valid.",
        note="Trusted: Coq kernel + vm_compute; harness; SciPy as second reference; IPOPT and brentq are judged by their results; 'monotone coefficients imply monotone spline' and partition of unity are not proved. No axioms. Two genuine defects repaired in /repo (20a757e unordered range of decreasing tables, 88755ad missing curvefit_options.ini on the second pre()).",
        ref="DESIGN.md §5 C20"),
}

PENDING_REASON = "check not built yet (work in progress; see DESIGN.md §7 build order) — not claimed until its Coq model, theorems and correspondence check run clean on the unchanged tree"


def main():
    checks = []
    for pid in ALL:
        if pid not in CHECKS:
            continue
        c = CHECKS[pid]
        checks.append({
            "property_id": pid,
            "quick_cmd": "./check %s --tier quick" % pid,
            "thorough_cmd": "./check %s --tier thorough" % pid,
            "evidence_file": "/verif/evidence/%s.json" % pid,
            "replay_cmd_template": "./check %s --replay {path}" % pid,
            "engine": "coq-correspondence",
            "level_claimed": {"category": "proof", "text": c["text"], "design_ref": c["ref"]},
            "level_note": c["note"],
            "technique": c["technique"],
        })
    m = {
        "version": 1,
        "setup_cmd": "cd /verif && ./check --setup",
        "hooks": {
            "guard": "RTCTOOLS_VERIF",
            "enable": "no hooks are needed: scripted solvers enter through the public casadi_solver option and the MRO; checks import rtctools from /repo/src (PYTHONPATH) as it is",
            "baseline_off_cmd": "cd /repo && /venv/bin/python -m pytest -ra -q -p no:cacheprovider --timeout=900 --continue-on-collection-errors",
            "source_commits": [],
            "add_only": True,
        },
        "engines": [{
            "name": "coq-correspondence",
            "path": "/verif/check",
            "serves_properties": [c["property_id"] for c in checks],
            "kind_free_text": "Coq 8.16 development (coq/theories models, coq/proofs lemmas, coq/props theorem files re-checked on every run) + Python correspondence harness evaluating the Gallina models with vm_compute against /repo's working tree",
        }],
        "checks": checks,
        "notes": "VERIF_SEED / --seed select the PRNG seed; VERIF_TIER / --tier the depth. known_findings.json lists genuine defects (open / fixed).",
        "not_applicable": [{"property_id": p, "reason": PENDING_REASON} for p in ALL if p not in CHECKS],
    }
    with open(os.path.join(V, "MANIFEST.json"), "w") as fh:
        json.dump(m, fh, indent=1)


main()
