#!/venv/bin/python
"""Markdown table of the seeded changes under /verif/seeded (from meta.json / eval.json)."""
import glob
import json
import os

INITIALLY_MISSED = json.load(open("/verif/seeded/initially_missed.json"))
rows = []
for d in sorted(glob.glob("/verif/seeded/C*/m*")):
    pid, m = d.split("/")[-2:]
    try:
        meta = json.load(open(os.path.join(d, "meta.json")))
    except Exception:  # noqa: BLE001
        meta = {}
    ev = json.load(open(os.path.join(d, "eval.json"))) if os.path.exists(os.path.join(d, "eval.json")) else {}
    sig = ""
    for k, v in ev.get("checks", {}).items():
        for ln in v.get("lines", []):
            if ln.startswith("# "):
                sig = ln[2:].split(":")[0]
                break
        if sig:
            break
    key = "%s/%s" % (pid, m)
    how = INITIALLY_MISSED.get(key)
    rows.append("| %s | %s | %s | %s | %s |" % (
        key, ", ".join(os.path.basename(f) for f in meta.get("files", []))[:60],
        (meta.get("trigger") or "").replace("|", "/").replace("\n", " ")[:170],
        ("yes: `%s`" % sig) if ev.get("detected") else "NO",
        ("missed at first; " + how) if how else "caught as built"))
print("| change | file | needs | caught by `./check %s` (quick, seed 1) | history |" % "<ID>")
print("|---|---|---|---|---|")
print("\n".join(rows))
