#!/venv/bin/python
"""Evaluate a seeded change: confirm its demonstration, apply it to /repo, run the property's check(s),
undo it.  usage: seeded_eval.py <ID> <mutation-dir> [--checks C01,C07] [--tiers quick,thorough] [--seeds 1,2]
Prints one JSON line with the outcome.  /repo must be clean before and is restored afterwards."""
import json
import os
import subprocess
import sys
import time


def sh(cmd, timeout=3600, env=None, cwd=None):
    p = subprocess.run(cmd, shell=True, stdout=subprocess.PIPE, stderr=subprocess.STDOUT, timeout=timeout, env=env, cwd=cwd)
    return p.returncode, p.stdout.decode(errors="replace")


def main():
    pid, mdir = sys.argv[1], os.path.abspath(sys.argv[2])
    args = dict(a.split("=", 1) for a in [x.lstrip("-") for x in sys.argv[3:]] if "=" in a)
    checks = args.get("checks", pid).split(",")
    tiers = args.get("tiers", "quick").split(",")
    seeds = args.get("seeds", "1").split(",")
    out = {"property": pid, "mutation": mdir, "checks": {}}
    rc, st = sh("git -C /repo status --porcelain")
    if st.strip():
        print(json.dumps({"error": "/repo not clean", "status": st}))
        return 2
    env = dict(os.environ, PYTHONPATH="/repo/src", PYTHONHASHSEED="0")
    demo = os.path.join(mdir, "demo.py")
    try:
        if os.path.exists(demo):
            rc0, o0 = sh("cd /tmp && timeout 300 /venv/bin/python -W ignore %s" % demo, env=env)
            out["demo_unmodified"] = {"rc": rc0, "holds": "PROPERTY HOLDS" in o0, "tail": o0[-300:]}
        rc, o = sh("git -C /repo apply --check %s/patch.diff && git -C /repo apply %s/patch.diff" % (mdir, mdir))
        if rc != 0:
            out["error"] = "patch does not apply: " + o[-300:]
            print(json.dumps(out))
            return 2
        if os.path.exists(demo):
            rc1, o1 = sh("cd /tmp && timeout 300 /venv/bin/python -W ignore %s" % demo, env=env)
            out["demo_modified"] = {"rc": rc1, "violated": "PROPERTY VIOLATED" in o1, "tail": o1[-300:]}
        for c in checks:
            for tier in tiers:
                for seed in seeds:
                    t0 = time.time()
                    rc, o = sh("cd /verif && ./check %s --tier %s --seed %s" % (c, tier, seed), timeout=7200)
                    lines = [ln for ln in o.splitlines() if ln.startswith(("VIOLATION", "# ", "KNOWN-FINDING", c + " "))]
                    out["checks"]["%s/%s/%s" % (c, tier, seed)] = {"rc": rc, "detected": rc != 0 and any(ln.startswith("VIOLATION") for ln in lines),
                                                                  "lines": [ln[:300] for ln in lines][:8], "wall": round(time.time() - t0, 1)}
                    if rc != 0:
                        break
                else:
                    continue
                break
    finally:
        sh("git -C /repo checkout -- . && git -C /repo clean -fdq src")
    out["detected"] = any(v["detected"] for v in out["checks"].values())
    print(json.dumps(out))
    return 0


if __name__ == "__main__":
    sys.exit(main())
